# Free-text parts of MANIFEST.json
NA_PURE = 'pure function of one operation\'s inputs (no schedule, fault, second party or history in the statement); deterministic simulation has nothing to decide and the brief forbids switching technique'
NOT_APPLICABLE = [
    {'property_id': 'C01', 'reason': 'decided entirely by the C++ compiler (does-not-compile / has-type clauses); nothing executes, so there is no schedule, fault, history or second party to simulate'},
    {'property_id': 'C05', 'reason': NA_PURE + ' (pointee type, base, n)'},
    {'property_id': 'C06', 'reason': NA_PURE + ' (type pair, value)'},
    {'property_id': 'C07', 'reason': NA_PURE + ' (type, address, value)'},
    {'property_id': 'C08', 'reason': 'layout is fixed at compile time per generated struct and the value round-trip is a pure function of the field values'},
    {'property_id': 'C16', 'reason': NA_PURE + ' (operator, operand types, values)'},
    {'property_id': 'C17', 'reason': NA_PURE + ' (shape, index type, index)'},
    {'property_id': 'C20', 'reason': NA_PURE + ' (type pair, bit pattern)'},
]
NOTES = ('See DESIGN.md. Claimed properties are decided by deterministic simulation only. Properties not yet listed under checks and not under '
         'not_applicable are still being built in this session.')

TEXT = {
    'C15': dict(
        level_text=('Seeded exploration of register/release/lookup/move/overwrite/destroy histories against a reference token->pointer map, '
                    'with exhaustion, cursor wrap and reuse reached in-run (limits 1..254, 4095, 65535). A clean batch is sampling evidence, not proof; '
                    'the state space of small limits (<=6) is covered completely as measured by small_limit_states_reached.'),
        design_ref='DESIGN.md section 5, C15',
        level_note='Trusted: the reference model (a std::map), the sim backend stub for layer 1; verdicts use only public behaviour (tokens returned, lookup result/abort).',
        technique='deterministic simulation: seeded operation histories vs reference model, shrinking, replay',
    ),
}
