# Free-text parts of MANIFEST.json
NA_PURE = 'pure function of one operation\'s inputs (no schedule, fault, second party or history in the statement); deterministic simulation has nothing to decide and the brief forbids switching technique'
NOT_APPLICABLE = [
    {'property_id': 'C01', 'reason': 'decided entirely by the C++ compiler (does-not-compile / has-type clauses); nothing executes, so there is no schedule, fault, history or second party to simulate'},
    {'property_id': 'C05', 'reason': NA_PURE + ' (pointee type, base, n)'},
    {'property_id': 'C06', 'reason': NA_PURE + ' (type pair, value)'},
    {'property_id': 'C07', 'reason': NA_PURE + ' (type, address, value)'},
    {'property_id': 'C08', 'reason': 'layout is fixed at compile time per generated struct and the value round-trip is a pure function of the field values'},
    {'property_id': 'C16', 'reason': NA_PURE + ' (operator, operand types, values)'},
    {'property_id': 'C17', 'reason': NA_PURE + ' (shape, index type, index)'},
    {'property_id': 'C20', 'reason': NA_PURE + ' (type pair, bit pattern)'},
]
NOTES = ('See DESIGN.md. Claimed properties are decided by deterministic simulation only. Properties not yet listed under checks and not under '
         'not_applicable are still being built in this session.')

TEXT = {
    'C15': dict(
        level_text=('Seeded exploration of register/release/lookup/move/overwrite/destroy histories against a reference token->pointer map, '
                    'with exhaustion, cursor wrap and reuse reached in-run (limits 1..254, 4095, 65535). A clean batch is sampling evidence, not proof; '
                    'the state space of small limits (<=6) is covered completely as measured by small_limit_states_reached.'),
        design_ref='DESIGN.md section 5, C15',
        level_note='Trusted: the reference model (a std::map), the sim backend stub for layer 1; verdicts use only public behaviour (tokens returned, lookup result/abort).',
        technique='deterministic simulation: seeded operation histories vs reference model, shrinking, replay',
    ),

}
_MEM_NOTE = ('Trusted: the sim backend stub and scripted guest (models of out-of-tree plug-ins), the simulator\'s own region table and ABI model. '
             'Real code: all of /repo/code/include core. Sampling, not enumeration.')
TEXT.update({
    'C02': dict(level_text=('Run-time half only: assign_raw_pointer (tainted and tainted_volatile destinations) and UNSAFE_accept_pointer are exercised over 14 address classes '
                            '(own region first/last/interior, other live sandboxes, former region of a destroyed sandbox, one before/past, heap, stack, function, 4 GiB alias) '
                            'with 1-4 sandboxes created/destroyed in plan order; accept <=> address inside that sandbox\'s live region, stored value/representation exact, '
                            'destination unchanged on refusal. The does-not-compile clauses are not decidable by running anything and are not claimed.'),
                design_ref='DESIGN.md section 5, C02', level_note=_MEM_NOTE, technique='deterministic simulation: seeded multi-sandbox histories, reference region table, shrinking, replay'),
    'C03': dict(level_text=('Invariant checked after every step of seeded pointer-derivation chains fed by a hostile guest: every produced tainted data pointer is null or inside the '
                            'region of the sandbox it was derived from, or the operation aborted. Sampling evidence over chains <=60 ops, 8 pointee types, 5 operand types x 3 wrapper forms.'),
                design_ref='DESIGN.md section 5, C03', level_note=_MEM_NOTE, technique='deterministic simulation: hostile-guest value injection, invariant after every step, shrinking, replay'),
    'C04': dict(level_text=('Guest-view bytes after stores, application-side addresses after loads, values seen by guest functions and callbacks, representation received by free, '
                            'for cells / struct fields / arrays of pointers / whole-struct copies / invoke and callback arguments and results, with and without sandbox context '
                            '(mask and registry flavours), 1-4 live sandboxes created and destroyed in any order. Sampling evidence.'),
                design_ref='DESIGN.md section 5, C04', level_note=_MEM_NOTE, technique='deterministic simulation: multi-sandbox histories, byte-level guest-view oracle, shrinking, replay'),
    'C14': dict(level_text=('Reference state machine per sandbox object {not created, created, failed create} with incarnation counter, checked operation by operation under seeded '
                            'histories including double create/destroy, injected backend create failure, use outside the window, owners that outlive destroy and destroy/create cycles, '
                            're-creation with another library; registry observed through the registry-flavoured backend stub. Sampling evidence.'),
                design_ref='DESIGN.md section 5, C14', level_note=_MEM_NOTE, technique='deterministic simulation: lifecycle histories with injected create failure vs reference state machine, shrinking, replay'),
})

_CB_NOTE = ('Trusted: the reference model (set of live registrations), the sim backend stub; noop and dylib backends run their real code against a small real C guest library. '
            'Sampling, not enumeration.')
TEXT.update({
    'C12': dict(level_text=('Per guest call the application-side log must gain exactly the records the model predicts: the function registered for the called entry, the reference '
                            'to the sandbox that is executing, arguments converted from the guest ABI, and the guest must receive the converted result or the call aborts when it is '
                            'not representable - under histories of registrations/unregistrations, up to 64+ simultaneous registrations, nested chains to depth 4 across sandboxes, '
                            'on the stub, noop and dylib backends and both TLS configurations. Sampling evidence.'),
                design_ref='DESIGN.md section 5, C12', level_note=_CB_NOTE, technique='deterministic simulation: seeded registration/call histories with nested chains vs reference model, shrinking, replay'),
    'C13': dict(level_text=('After every step of seeded ownership histories the set of functions reachable from guest code must equal the model\'s set of live registered owners '
                            '(direct table comparison on the stub; flags, entry-point distinctness, re-registrability and call reachability on noop/dylib), capacity exhaustion must be '
                            'refused and recoverable, moved-from owners inert, owners released after destroy_sandbox harmless. Sampling evidence.'),
                design_ref='DESIGN.md section 5, C13', level_note=_CB_NOTE, technique='deterministic simulation: seeded ownership histories with capacity faults vs reference model, shrinking, replay'),
})

TEXT.update({
    'C11': dict(level_text=('Guest-side log and returned value compared with a 128-bit reference conversion for every invocation of seeded histories over several live instances bound '
                            'to different libraries (same names, different table indices), including lookup-order histories (address before/after invoke) and destroy/re-create with another '
                            'library; real dlsym-based instances for the per-instance symbol clause. Sampling evidence.'),
                design_ref='DESIGN.md section 5, C11', level_note=_CB_NOTE, technique='deterministic simulation: two-party invoke exchange over several instances vs reference conversion, shrinking, replay'),
})

TEXT.update({
    'C09': dict(level_text=('Fault enumeration: for every copy_and_verify variant, both source placements and three lengths, a guest mutation is injected at every single access RLBox '
                            'makes to sandbox memory (trap-MMU), for every mutation kind; plus seeded multi-fault runs and longer sources. Oracles: object in application memory, '
                            'stable while the guest scribbles during the verifier and after return, provenance of every delivered byte, string length/terminator, no sandbox access '
                            'after the verifier is entered. Exhaustive only for the stated single-fault grid.'),
                design_ref='DESIGN.md section 5, C09', level_note='Trusted: trap-MMU (kernel mprotect/TF semantics), sim backend stub. Real code: all of /repo/code/include core. x86-64/Linux only.',
                technique='deterministic simulation: trap-MMU interleaving of guest writes at every RLBox access to sandbox memory, enumerated single-fault grid + seeded multi-fault runs, shrinking, replay'),
})

TEXT.update({
    'C10': dict(level_text=('Every bulk operation\'s outcome is compared with the simulator\'s region table (must proceed / must abort) and its footprint with a byte-wise diff of both '
                            'sandbox regions, their neighbouring application pages and a red-zoned application arena; reads are observed with the trap-MMU in a sixth of the runs; allocator, '
                            'grant/deny and host malloc failures are injected. The (start, extent, operand type) space is sampled with boundary bias; the toctou world adds interleaved '
                            'guest writes. Sampling evidence.'),
                design_ref='DESIGN.md section 5, C10', level_note='Trusted: sim backend stub, trap-MMU, ASan for the application heap. Real code: all of /repo/code/include core.',
                technique='deterministic simulation: seeded bulk operations with injected allocation/grant faults, byte-footprint + trap-MMU read-set oracle, shrinking, replay'),
})

TEXT.update({
    'C19': dict(level_text=('Fault enumeration: every single abort position in every tree of nested crossings up to depth 3 / width 2 (24 shapes x 2 backends x 1-2 sandboxes) is '
                            'injected and the recorded notification sequence and timing vector are compared with the bracket word and crossing count of a reference model; plus seeded '
                            'larger trees with two aborts, aborts caught by outer callbacks and transition-state changes inside crossings. Three builds (hooks, timing, both). '
                            'Exhaustive only for the stated single-abort grid.'),
                design_ref='DESIGN.md section 5, C19', level_note='Trusted: reference bracket model, sim backend stub, simulated clock. Real code: rlbox_sandbox.hpp invoke path and callback interceptor, noop backend.',
                technique='deterministic simulation: abort injection at every crossing position of nested invoke/callback trees, history check against a bracket grammar, simulated clock, shrinking, replay'),
})

TEXT.update({
    'C18': dict(level_text=('Seeded schedule exploration over real threads parked and released one at a time at RLBox\'s own lock boundaries, backend entry points and guest/callback code, with '
                            'per-thread single-threaded oracles, deadlock and bounded-progress detection, and a ThreadSanitizer build in which only RLBox\'s own synchronisation creates '
                            'happens-before edges (the scheduler hand-off is hidden from TSan). Sampling evidence over schedules; distinct schedules are counted.'),
                design_ref='DESIGN.md section 5, C18', level_note='Trusted: the scheduler and lock model, ThreadSanitizer (clang 14), sim backend stub. Real code: rlbox_sandbox.hpp registry/locking, noop backend TLS record.',
                technique='deterministic simulation: seeded scheduler over real threads at lock/backend yield points + happens-before race detection (TSan with hidden hand-off), shrinking, replay'),
})
