// World `toctou` — property C09 (and the interleaving half of C10/C03).
// One application thread calls a copy_and_verify variant; the guest actor gets
// a turn at RLBox's k-th access to sandbox memory (trap-MMU), inside the
// verifier and after the call returns.
#include "../sim/world_common.hpp"
#include "../sim/mmu.hpp"
#include "../sim/aligned_new.hpp"
#include "../sim/simnode.hpp"
#include <malloc.h>
#include <memory>

using namespace sim;
using Sbx = rlbox::rlbox_sim_sandbox;
using Sandbox = rlbox::rlbox_sandbox<Sbx>;
template<class T>
using TP = rlbox::tainted<T*, Sbx>;

// host allocation failure seam (-Wl,--wrap=malloc): only calls made from this
// translation unit (i.e. from RLBox header code and the harness) are wrapped
extern "C" void* __real_malloc(size_t);
static int g_host_malloc_fail = 0;
extern "C" void* __wrap_malloc(size_t n)
{
  if (g_host_malloc_fail > 0) {
    g_host_malloc_fail--;
    if (g_ctx)
      g_ctx->fired("F5_host_malloc_null");
    return nullptr;
  }
  (void)&__real_malloc;
  return sim_aligned_alloc_nothrow(n); // see sim/aligned_new.hpp (malloc is declared nothrow: report failure as NULL)
}

enum Kind
{
  K_SCEN,
  K_FAULT,
  K_COUNT
};
static const char* kKind[] = { "scenario", "fault" };

enum Variant
{
  V_STR_UPTR,
  V_STR_STD,
  V_STR_UPTR_VOL,
  V_STR_STD_VOL,
  V_RANGE_CHAR,
  V_RANGE_SHORT,
  V_RANGE_INT,
  V_RANGE_LL,
  V_RANGE_DOUBLE,
  V_RANGE_INT_VOL,
  V_CV_PRIM,
  V_CV_PRIM_VOL,
  V_CV_FUND_VOL,
  V_CV_STRUCT,
  V_CV_ARRAY,
  V_CV_ADDR_VOL,
  V_CV_BUFADDR,
  V_DENY,
  V_STR_CUPTR,
  V_STR_CUPTR_VOL,
  V_CV_ARRAY_REF,
  V_CV_BUFADDR_VOL,
  V_CV_STRUCT_VALUE,
  V_CV_STRUCT_VALUE_GENERIC,
  V_RANGE_LONG,
  V_CV_ARRAY2D,
  V_RANGE_INT_COUNTREF,
  V_COUNT
};
static const char* kVar[] = { "string_uptr",   "string_std",  "string_uptr_from_cell", "string_std_from_cell", "range_char",   "range_short",
                              "range_int",     "range_ll",    "range_double",          "range_int_from_cell",  "cv_ptr_prim",  "cv_ptr_prim_from_cell",
                              "cv_fund_in_cell", "cv_struct", "cv_array_field",        "cv_address_from_cell", "cv_buffer_address", "deny_access_copy",
                              "string_const_uptr", "string_const_uptr_from_cell", "cv_array_field_by_reference", "cv_buffer_address_from_cell", "cv_struct_by_value", "cv_struct_by_value_generic_verifier", "range_long", "cv_array_of_arrays_field", "range_int_count_read_from_sandbox_memory" };
static_assert(sizeof(kVar) / sizeof(kVar[0]) == V_COUNT);

enum Mut
{
  M_REMOVE_NUL,
  M_INSERT_NUL,
  M_LENGTHEN,
  M_FLIP,
  M_RETARGET,
  M_NULL_CELL,
  M_SCRIBBLE,
  M_RETARGET_END, // the cell is pointed at the last bytes of the region: whatever extent was checked for the old target does not fit there
  M_COUNT_GROW, // the element count the application read from sandbox memory (variant range_int_count_read_from_sandbox_memory) grows by 9
  M_ALLOC_FAIL, // not a guest mutation: the k-th host allocation made inside the call fails (k counts allocations, not accesses)
  M_COUNT
};
static const char* kMut[] = { "remove_terminator", "insert_terminator", "lengthen", "flip_element", "retarget_cell", "null_cell", "scribble_region", "retarget_cell_to_region_end", "count_cell_grows", "host_allocation_fails" };

constexpr uint32_t OFF_CELL = 32; // pointer cell
constexpr uint32_t OFF_COUNT = 48; // a size_t the application reads its element count from (8 bytes, the application's own layout)
constexpr uint32_t OFF_B = 1024; // second buffer (retarget target)
constexpr uint32_t OFF_A_INTERIOR = 256;

static size_t elem_size(int v)
{
  switch (v) {
    case V_RANGE_SHORT:
      return 2;
    case V_RANGE_INT:
    case V_RANGE_INT_COUNTREF:
    case V_RANGE_INT_VOL:
    case V_CV_PRIM:
    case V_CV_PRIM_VOL:
    case V_RANGE_LONG: // the guest's long
      return 4;
    case V_RANGE_LL:
    case V_RANGE_DOUBLE:
      return 8;
    case V_CV_ARRAY2D:
      return sizeof(SimGrid);
    case V_CV_STRUCT:
    case V_CV_STRUCT_VALUE:
    case V_CV_STRUCT_VALUE_GENERIC:
    case V_CV_ARRAY:
    case V_CV_ARRAY_REF:
    case V_CV_FUND_VOL:
      return sizeof(GNode);
    default:
      return 1;
  }
}
static bool is_string(int v)
{
  return v <= V_STR_STD_VOL || v == V_STR_CUPTR || v == V_STR_CUPTR_VOL;
}
static bool uses_cell(int v)
{
  return v == V_STR_UPTR_VOL || v == V_STR_STD_VOL || v == V_STR_CUPTR_VOL || v == V_CV_BUFADDR_VOL || v == V_RANGE_INT_VOL || v == V_CV_PRIM_VOL || v == V_CV_ADDR_VOL;
}
static bool single_object(int v)
{
  return v == V_CV_PRIM || v == V_CV_PRIM_VOL || v == V_CV_FUND_VOL || v == V_CV_STRUCT || v == V_CV_STRUCT_VALUE || v == V_CV_STRUCT_VALUE_GENERIC || v == V_CV_ARRAY2D || v == V_CV_ARRAY || v == V_CV_ARRAY_REF || v == V_CV_ADDR_VOL;
}

// length of a string handed over in a heap block of its own: never reads beyond the block
static size_t bounded_strlen(const char* p)
{
  size_t cap = malloc_usable_size(const_cast<char*>(p));
  size_t n = 0;
  while (n < cap && p[n])
    n++;
  return n;
}

struct Fault
{
  uint64_t k;
  int mut;
  int arg;
  bool fired = false;
};

struct ToctouWorld : World
{
  const char* name() const override { return "toctou"; }
  const char* op_name(int k) const override { return kKind[k]; }
  int op_kind_count() const override { return K_COUNT; }

  // ---- per-run state (used from the signal-time hook: plain data only) ----
  Sbx* impl = nullptr;
  size_t S = 0;
  uint32_t offA = 0, lenA = 0; // source buffer: offset, number of elements (strings: characters before NUL)
  size_t esz = 1;
  int variant = 0;
  std::vector<Fault> faults;
  std::vector<std::vector<uint8_t>> versions; // snapshots of the whole region (guest view)
  uint64_t faults_fired_in_window = 0;
  bool verifier_entered = false;
  uint64_t traps_at_verifier = 0;

  void snapshot() { versions.emplace_back(impl->mem.gbase, impl->mem.gbase + S); }

  void mutate(int mut, int arg)
  {
    uint8_t* g = impl->mem.gbase;
    switch (mut) {
      case M_REMOVE_NUL:
        if (is_string(variant))
          g[offA + lenA] = 'X';
        else
          g[offA + (uint32_t)lenA * esz - 1] ^= 0x40;
        break;
      case M_INSERT_NUL: {
        uint32_t j = lenA ? (uint32_t)arg % lenA : 0;
        memset(g + offA + j * esz, 0, esz == sizeof(GNode) ? 4 : esz);
        break;
      }
      case M_LENGTHEN: {
        // remove the terminator and make the following bytes non-zero up to 40 bytes / end of region
        uint32_t from = offA + (uint32_t)(lenA * esz);
        for (uint32_t i = from; i < from + 40 && i < S; i++)
          g[i] = 'Y';
        break;
      }
      case M_FLIP: {
        uint32_t j = lenA ? (uint32_t)arg % lenA : 0;
        g[offA + j * esz] ^= 0x5A;
        break;
      }
      case M_RETARGET: {
        uint32_t b = OFF_B;
        memcpy(g + OFF_CELL, &b, 4);
        break;
      }
      case M_NULL_CELL: {
        uint32_t z = 0;
        memcpy(g + OFF_CELL, &z, 4);
        break;
      }
      case M_SCRIBBLE:
        memset(g + 8, 'Z', S - 8);
        break;
      case M_RETARGET_END: {
        uint32_t b = (uint32_t)(S - 2);
        memcpy(g + OFF_CELL, &b, 4);
        break;
      }
      case M_COUNT_GROW: {
        if (variant != V_RANGE_INT_COUNTREF)
          return;
        size_t n = lenA + 9;
        memcpy(g + OFF_COUNT, &n, sizeof n);
        break;
      }
      default:
        return;
    }
    snapshot();
  }

  static void hook(uint64_t k, uint32_t, bool, void* ud)
  {
    auto* w = (ToctouWorld*)ud;
    if (w->verifier_entered)
      return;
    AllocPause nofail; // snapshots are the harness's allocations
    for (auto& f : w->faults)
      if (!f.fired && f.mut != M_ALLOC_FAIL && f.k == k) {
        f.fired = true;
        w->faults_fired_in_window++;
        w->mutate(f.mut, f.arg);
      }
  }

  // ---- what the verifier / the application received ----
  struct Got
  {
    bool called = false;
    bool null_obj = false;
    uintptr_t obj_addr = 0; // address of the object / buffer handed over
    std::vector<uint8_t> bytes;
    bool changed = false; // content changed while the guest scribbled its memory
    size_t usable = 0;
  };
  Got got;
  Ctx* C = nullptr;

  void scribble_all()
  {
    memset(impl->mem.gbase + 8, 0x5E, S - 8); // '^', non-zero everywhere
  }
  // called at verifier entry with the object's storage
  // a buffer the library allocated and hands over: nothing may have been written behind the bytes it asked for, and a
  // string's terminator lies inside them
  bool block_overrun = false;
  size_t block_asked = 0;
  uint64_t excluded_traps = 0;
  void check_block(const void* data, bool is_string)
  {
    const SimAllocRec* a = data ? sim_alloc_find(data) : nullptr;
    if (!a)
      return;
    const uint8_t* b = (const uint8_t*)data;
    block_asked = a->n;
    for (size_t i = a->n; i < a->r && i < a->n + 64; i++)
      if (b[i] != 0xA5)
        block_overrun = true;
    if (is_string && a->n > 0 && memchr(b, 0, a->n) == nullptr)
      block_overrun = true;
  }
  void verifier_saw(const void* data, size_t n, bool null_obj = false)
  {
    g_host_alloc_fail_countdown = 0; // the fault targets the allocations RLBox makes before it calls the verifier
    verifier_entered = true;
    traps_at_verifier = mmu::g.count;
    got.called = true;
    got.null_obj = null_obj;
    got.obj_addr = (uintptr_t)data;
    if (data && n) {
      got.bytes.assign((const uint8_t*)data, (const uint8_t*)data + n);
      scribble_all(); // "whatever the sandbox writes ... cannot change what the verifier saw"
      got.changed = memcmp(got.bytes.data(), data, n) != 0;
    }
  }

  // ---- oracle helpers ----
  bool addr_in_region(uintptr_t a) { return a >= (uintptr_t)impl->mem.base && a < (uintptr_t)impl->mem.base + S; }
  // may byte `val` at element-relative byte position `pos` stem from some version of the source?
  // places the source can legitimately start at: the buffer itself and, for pointers that live in a cell, whatever
  // the guest retargeted the cell to
  std::vector<uint32_t> source_starts()
  {
    std::vector<uint32_t> b{ offA };
    if (uses_cell(variant)) {
      b.push_back(OFF_B);
      for (auto& f : faults)
        if (f.mut == M_RETARGET_END && f.fired)
          b.push_back((uint32_t)(S - 2));
    }
    return b;
  }
  bool byte_allowed(size_t pos, uint8_t val)
  {
    for (auto& v : versions) {
      for (uint32_t base : source_starts()) {
        if ((size_t)base + pos < S && v[base + pos] == val)
          return true;
      }
    }
    return false;
  }
  size_t longest_source_strlen()
  {
    size_t best = 0;
    for (auto& v : versions)
      for (uint32_t base : source_starts()) {
        size_t n = 0;
        while (base + n < S && v[base + n] != 0)
          n++;
        if (base + n >= S)
          continue; // unterminated inside the region: cannot be delivered legally
        best = std::max(best, n);
      }
    return best;
  }

  struct Scen
  {
    int variant, placement, len;
    uint64_t seed;
    int logsz;
  };

  // Executes one scenario.  Returns number of traps in the window (K).
  uint64_t execute(const Scen& sc, Ctx& c, bool dry)
  {
    C = &c;
    variant = sc.variant;
    esz = elem_size(variant);
    Sbx::cfg = Sbx::Config();
    Sbx::cfg.size = (size_t)1 << sc.logsz;
    Sbx::cfg.mmu = true;
    Sbx::cfg.registry = (sc.seed >> 7) & 1;
    Sandbox sb;
    sb.create_sandbox(0);
    impl = sb.get_sandbox_impl();
    S = impl->mem.size;
    // the page behind the region is application memory full of canary bytes; terminate it
    // so that a runaway strlen stops inside mapped memory
    impl->mem.base[S + 4095] = 0;
    uint8_t* g = impl->mem.gbase;
    uintptr_t base = (uintptr_t)impl->mem.base;
    lenA = (uint32_t)(single_object(variant) ? 1 : sc.len < 1 ? 1 : sc.len);
    size_t bytesA = (size_t)lenA * esz + (is_string(variant) ? 1 : 0);
    offA = sc.placement ? (uint32_t)(S - bytesA) : OFF_A_INTERIOR;
    // fill A and B
    for (uint32_t i = 0; i < lenA * esz; i++) {
      g[offA + i] = (uint8_t)('a' + (sc.seed + i) % 26);
      g[OFF_B + i] = (uint8_t)('A' + (sc.seed + i) % 26);
    }
    if (is_string(variant)) {
      g[offA + lenA] = 0;
      g[OFF_B + lenA] = 0;
    }
    if (variant == V_RANGE_DOUBLE) {
      for (uint32_t i = 0; i < lenA; i++) {
        double d = 1.5 * (double)(i + 1) + (double)(sc.seed % 7), e = -2.25 * (double)(i + 1);
        memcpy(g + offA + 8 * i, &d, 8);
        memcpy(g + OFF_B + 8 * i, &e, 8);
      }
    }
    if (esz == sizeof(GNode)) {
      GNode n;
      memset(&n, 0, sizeof n);
      n.tag = (int32_t)(sc.seed % 100000);
      n.next = 0;
      n.data = OFF_B;
      memcpy(n.name, "rlboxsim", 8);
      n.big = 0x1122334455667788ULL ^ sc.seed;
      memcpy(g + offA, &n, sizeof n);
      n.tag = -5;
      memcpy(n.name, "SIMRLBOX", 8);
      memcpy(g + OFF_B, &n, sizeof n);
    }
    uint32_t repA = offA;
    memcpy(g + OFF_CELL, &repA, 4);
    {
      size_t count_cell = lenA;
      memcpy(g + OFF_COUNT, &count_cell, sizeof count_cell);
    }
    versions.clear();
    snapshot();
    faults_fired_in_window = 0;
    verifier_entered = false;
    block_overrun = false;
    block_asked = 0;
    excluded_traps = 0;
    got = Got();

    auto pA = [&](auto tag) {
      using T = std::remove_pointer_t<decltype(tag)>;
      return sb.UNSAFE_accept_pointer(reinterpret_cast<T*>(base + offA));
    };
    auto cell = [&](auto tag) {
      using T = std::remove_pointer_t<decltype(tag)>;
      return sb.UNSAFE_accept_pointer(reinterpret_cast<T**>(base + OFF_CELL));
    };

    std::unique_ptr<char[]> kept_str;
    std::unique_ptr<const char[]> kept_cstr;
    std::string kept_std;
    std::vector<uint8_t> kept; // bytes the application keeps using afterwards
    const void* kept_ptr = nullptr;
    size_t kept_n = 0;
    std::unique_ptr<char[]> u_char;
    std::unique_ptr<short[]> u_short;
    std::unique_ptr<int[]> u_int;
    std::unique_ptr<long long[]> u_ll;
    std::unique_ptr<long[]> u_long;
    std::unique_ptr<double[]> u_double;
    std::unique_ptr<int> u_prim;
    std::unique_ptr<rlbox::tainted<SimNode, Sbx>> u_struct;
    std::array<char, 8> arr{};
    SimNode node_value{};
    bool node_value_set = false;
    std::array<std::array<int, 4>, 2> arr2d;
    bool arr2d_set = false;
    for (auto& row : arr2d)
      row.fill(0x0BADBEEF); // what a partial copy would leave behind
    long fund = 0;
    uintptr_t addr_val = 0;
    char* deny_buf = nullptr;
    bool copied = false;

    if (!dry) {
      c.ev("scenario %s placement=%d len=%u size=%zu", kVar[variant], sc.placement, lenA, S);
      void* probe1 = ::operator new(6000);
      void* probe2 = ::operator new(300);
      c.ev("layout heap6000_above_region=%d heap300_above_region=%d", (int)((uintptr_t)probe1 > base), (int)((uintptr_t)probe2 > base));
      ::operator delete(probe1);
      ::operator delete(probe2);
    }
    unsigned long alloc_failed_before = g_host_alloc_failed;
    if (!dry && variant != V_DENY)
      for (auto& f : faults)
        if (f.mut == M_ALLOC_FAIL && f.k >= 1 && f.k <= 8)
          g_host_alloc_fail_countdown = (int)f.k;
    mmu::arm(impl->mem.base, S, dry ? nullptr : &ToctouWorld::hook, this);
    Outcome o = attempt([&] {
      switch (variant) {
        case V_STR_UPTR:
          kept_str = pA((char*)0).copy_and_verify_string([&](std::unique_ptr<char[]> s) {
            check_block(s.get(), true);
            verifier_saw(s.get(), s ? bounded_strlen(s.get()) + 1 : 0, !s);
            return s;
          });
          break;
        case V_STR_STD:
          kept_std = pA((char*)0).copy_and_verify_string([&](std::string s) {
            verifier_saw(s.data(), s.size() + 1);
            return s;
          });
          break;
        case V_STR_UPTR_VOL:
          kept_str = (*cell((char*)0)).copy_and_verify_string([&](std::unique_ptr<char[]> s) {
            check_block(s.get(), true);
            verifier_saw(s.get(), s ? bounded_strlen(s.get()) + 1 : 0, !s);
            return s;
          });
          break;
        case V_STR_STD_VOL:
          kept_std = (*cell((char*)0)).copy_and_verify_string([&](std::string s) {
            verifier_saw(s.data(), s.size() + 1);
            return s;
          });
          break;
        case V_RANGE_CHAR:
          u_char = pA((char*)0).copy_and_verify_range(
            [&](std::unique_ptr<char[]> v) {
              verifier_saw(v.get(), lenA, !v);
              return v;
            },
            lenA);
          break;
        case V_RANGE_SHORT:
          u_short = pA((short*)0).copy_and_verify_range(
            [&](std::unique_ptr<short[]> v) {
              verifier_saw(v.get(), lenA * 2, !v);
              return v;
            },
            lenA);
          break;
        case V_RANGE_INT:
          u_int = pA((int*)0).copy_and_verify_range(
            [&](std::unique_ptr<int[]> v) {
              verifier_saw(v.get(), lenA * 4, !v);
              return v;
            },
            lenA);
          break;
        case V_RANGE_INT_COUNTREF: {
          // the application passes, as the count, an lvalue that lives in sandbox memory (it obtained the address through
          // the unchecked accessor): the call sees the value it had when the call was made
          const size_t* count_in_sandbox = reinterpret_cast<const size_t*>(impl->mem.base + OFF_COUNT);
          u_int = pA((int*)0).copy_and_verify_range(
            [&](std::unique_ptr<int[]> v) {
              check_block(v.get(), false);
              verifier_saw(v.get(), lenA * 4, !v);
              return v;
            },
            *count_in_sandbox);
          break;
        }
        case V_RANGE_LL:
          u_ll = pA((long long*)0).copy_and_verify_range(
            [&](std::unique_ptr<long long[]> v) {
              verifier_saw(v.get(), lenA * 8, !v);
              return v;
            },
            lenA);
          break;
        case V_RANGE_LONG:
          // long is 4 bytes in the guest and 8 in the application: whatever the library makes of that, nothing from
          // behind the region may end up in the copy (content is not judged, see assumptions)
          u_long = pA((long*)0).copy_and_verify_range(
            [&](std::unique_ptr<long[]> v) {
              verifier_saw(v.get(), lenA * 8, !v);
              return v;
            },
            lenA);
          break;
        case V_RANGE_DOUBLE:
          u_double = pA((double*)0).copy_and_verify_range(
            [&](std::unique_ptr<double[]> v) {
              verifier_saw(v.get(), lenA * 8, !v);
              return v;
            },
            lenA);
          break;
        case V_RANGE_INT_VOL:
          u_int = (*cell((int*)0)).copy_and_verify_range(
            [&](std::unique_ptr<int[]> v) {
              verifier_saw(v.get(), lenA * 4, !v);
              return v;
            },
            lenA);
          break;
        case V_CV_PRIM:
          u_prim = pA((int*)0).copy_and_verify([&](std::unique_ptr<int> v) {
            verifier_saw(v.get(), 4, !v);
            return v;
          });
          break;
        case V_CV_PRIM_VOL:
          u_prim = (*cell((int*)0)).copy_and_verify([&](std::unique_ptr<int> v) {
            verifier_saw(v.get(), 4, !v);
            return v;
          });
          break;
        case V_CV_FUND_VOL:
          fund = pA((SimNode*)0)->tag.copy_and_verify([&](long v) {
            verifier_saw(&v, sizeof v);
            return v;
          });
          break;
        case V_CV_STRUCT:
          u_struct = pA((SimNode*)0).copy_and_verify([&](std::unique_ptr<rlbox::tainted<SimNode, Sbx>> v) {
            verifier_saw(v.get(), sizeof(*v), !v);
            return v;
          });
          break;
        case V_CV_ARRAY:
          arr = pA((SimNode*)0)->name.copy_and_verify([&](std::array<char, 8> a) {
            verifier_saw(a.data(), 8);
            return a;
          });
          break;
        case V_CV_ADDR_VOL:
          addr_val = (*cell((char*)0)).copy_and_verify_address([&](uintptr_t a) {
            verifier_saw(&a, sizeof a);
            return a;
          });
          break;
        case V_CV_BUFADDR:
          addr_val = pA((char*)0).copy_and_verify_buffer_address(
            [&](uintptr_t a) {
              verifier_saw(&a, sizeof a);
              return a;
            },
            lenA);
          break;
        case V_CV_STRUCT_VALUE: {
          // copy_and_verify on the struct itself (as it lives in sandbox memory): the verifier gets a tainted copy
          std::function<SimNode(rlbox::tainted<SimNode, Sbx>)> vf = [&](rlbox::tainted<SimNode, Sbx> v) {
            verifier_saw(&v, sizeof v);
            SimNode r{};
            r.tag = v.tag.UNSAFE_unverified();
            r.big = v.big.UNSAFE_unverified();
            return r;
          };
          node_value = (*pA((SimNode*)0)).copy_and_verify(vf);
          node_value_set = true;
          break;
        }
        case V_CV_STRUCT_VALUE_GENERIC:
          // the verifier is a generic callable taking its argument by reference: whatever it is bound to must be a copy
          node_value = (*pA((SimNode*)0)).copy_and_verify([&](const auto& v) {
            verifier_saw(std::addressof(v), sizeof v);
            SimNode r{};
            r.tag = v.tag.UNSAFE_unverified();
            r.big = v.big.UNSAFE_unverified();
            return r;
          });
          node_value_set = true;
          break;
        case V_CV_ARRAY2D:
          // an array of arrays (same element layout on both sides): every element comes from the sandbox
          pA((SimGrid*)0)->m.copy_and_verify([&](std::array<int[4], 2> a) {
            static_assert(sizeof a == sizeof arr2d);
            verifier_saw(a.data(), sizeof a);
            memcpy(arr2d.data(), a.data(), sizeof a);
            return 0;
          });
          arr2d_set = true;
          break;
        case V_CV_ARRAY_REF:
          // the verifier takes the array by reference: what it is handed must still be an application-side copy
          if ((sc.seed >> 13) & 1) {
            // a "validate and pass through" verifier hands back the very object it was given, and the application keeps
            // the result by reference: what it holds must be its own object, still intact after an unrelated second
            // verification has used the same stack
            const std::array<char, 8>& held = pA((SimNode*)0)->name.copy_and_verify([&](const std::array<char, 8>& a) -> const std::array<char, 8>& {
              verifier_saw(a.data(), 8);
              return a;
            });
            uint64_t c0 = mmu::g.count;
            char first = pA((SimNode*)0)->name.copy_and_verify([&](std::array<char, 8> b) { return b[0]; });
            (void)first;
            excluded_traps += mmu::g.count - c0; // (the second verification reads the sandbox again, as it must)
            arr = held;
            c.probe("verifier_result_held_by_reference_across_another_verification");
            break;
          }
          arr = pA((SimNode*)0)->name.copy_and_verify([&](const std::array<char, 8>& a) {
            verifier_saw(a.data(), 8);
            return a;
          });
          break;
        case V_CV_BUFADDR_VOL:
          addr_val = (*cell((char*)0)).copy_and_verify_buffer_address(
            [&](uintptr_t a) {
              verifier_saw(&a, sizeof a);
              return a;
            },
            lenA);
          break;
        case V_STR_CUPTR:
          kept_cstr = pA((char*)0).copy_and_verify_string([&](std::unique_ptr<const char[]> s) {
            check_block(s.get(), true);
            verifier_saw(s.get(), s ? bounded_strlen(s.get()) + 1 : 0, !s);
            return s;
          });
          break;
        case V_STR_CUPTR_VOL:
          kept_cstr = (*cell((char*)0)).copy_and_verify_string([&](std::unique_ptr<const char[]> s) {
            check_block(s.get(), true);
            verifier_saw(s.get(), s ? bounded_strlen(s.get()) + 1 : 0, !s);
            return s;
          });
          break;
        case V_DENY: {
          g_fault.grant_refuse = 1;
          if ((sc.seed >> 9) % 5 == 0)
            g_host_malloc_fail = 1;
          deny_buf = rlbox::copy_memory_or_deny_access(sb, pA((char*)0), lenA, false, copied);
          break;
        }
      }
    });
    uint64_t K = mmu::g.count;
    uint64_t traps_after_verifier = verifier_entered ? K - traps_at_verifier - excluded_traps : 0;
    mmu::disarm();
    g_host_alloc_fail_countdown = 0;
    bool alloc_fault = g_host_alloc_failed != alloc_failed_before;
    g_host_malloc_fail = 0;
    g_fault.clear();
    if (dry) {
      if (deny_buf)
        free(deny_buf);
      attempt([&] { sb.destroy_sandbox(); });
      return K;
    }
    // trap log into the event log (offsets are position independent)
    for (size_t i = 0; i < mmu::g.nlog && i < 64; i++)
      c.ev("%c@%u", mmu::g.log[i].write ? 'W' : 'R', mmu::g.log[i].off);
    c.ev("-> %s traps=%llu faults_fired=%llu", oname(o), (unsigned long long)K, (unsigned long long)faults_fired_in_window);
    c.st.steps += K;
    for (auto& f : faults)
      if (f.fired)
        c.fired((std::string("F2_") + kMut[f.mut]).c_str());
    if (alloc_fault) {
      c.fired("F5_host_allocation_fails_inside_call");
      c.ev("host allocation failed inside the call");
    }

    // ---------------- oracle ----------------
    const char* vn = kVar[variant];
    auto cls = [&](const char* what) { return std::string(what) + "@" + vn; };
    if (o == TRAP) {
      // the backend stub refused (registry found no sandbox): only legal if the run is otherwise broken
      c.violate("C09", cls("unexpected_trap"), "%s", g_last_abort_msg.c_str());
    }
    bool fault_free = faults_fired_in_window == 0 && !alloc_fault;
    if (alloc_fault && !c.stop) {
      // the copy could not be made: the call fails, no verifier runs and nothing is handed over
      if (got.called)
        c.violate("C09", cls("verifier_ran_although_copy_could_not_be_allocated"), "verifier called with %s after the allocation of the copy failed", got.null_obj ? "null" : "an object");
      else if (o == OK)
        c.violate("C09", cls("call_succeeded_although_copy_could_not_be_allocated"), "returned normally");
    }
    if (got.called && got.null_obj && !c.stop) {
      // null is handed over only for a null source pointer
      bool legit = false;
      if (uses_cell(variant))
        for (auto& v : versions) {
          uint32_t rep;
          memcpy(&rep, &v[OFF_CELL], 4);
          legit = legit || rep == 0;
        }
      if (!legit)
        c.violate("C09", cls("verifier_received_null_for_non_null_source"), "the source pointer was never null");
    }
    // a range of application-sized longs that does not fit before the end of the region may be refused
    bool long_overreach = variant == V_RANGE_LONG && (size_t)offA + (size_t)lenA * 8 > S;
    if (fault_free && o != OK && !long_overreach && !(variant == V_DENY && copied == false && deny_buf == nullptr)) {
      c.violate("C09", cls("fault_free_call_aborted"), "%s", g_last_abort_msg.c_str());
    }
    if (o == OK && variant != V_DENY && !got.called) {
      c.violate("C09", cls("verifier_not_called"), "call returned normally without running the verifier");
    }
    if (got.called && !c.stop) {
      // (1) the object lives in application memory
      if (!got.null_obj && addr_in_region(got.obj_addr))
        c.violate("C09", cls("verifier_received_sandbox_memory"), "object at region offset %llu", (unsigned long long)(got.obj_addr - base));
      // (2) stability while the guest scribbles, inside the verifier
      else if (got.changed)
        c.violate("C09", cls("object_changed_during_verifier"), "content changed when the sandbox overwrote its memory");
      // (5) no access to sandbox memory after the verifier was entered
      else if (traps_after_verifier != 0)
        c.violate("C09", cls("sandbox_read_after_verifier_entered"), "%llu accesses", (unsigned long long)traps_after_verifier);
    }
    // what the application keeps
    if (o == OK && !c.stop) {
      if (kept_str || kept_cstr) {
        const char* ks = kept_str ? kept_str.get() : kept_cstr.get();
        size_t n = bounded_strlen(ks);
        got.usable = malloc_usable_size(const_cast<char*>(ks));
        if (n >= got.usable) {
          c.violate("C09", cls("string_not_terminated_inside_its_buffer"), "no NUL within the %zu bytes of the buffer handed over", got.usable);
        } else if (block_overrun) {
          c.violate("C09", cls("string_not_terminated_inside_its_buffer"), "the library asked for a buffer of %zu bytes and wrote behind them, or put no NUL into them", block_asked);
        } else {
          kept_ptr = ks;
          kept_n = n + 1;
        }
      } else if (variant == V_STR_STD || variant == V_STR_STD_VOL) {
        kept_ptr = kept_std.data();
        kept_n = kept_std.size() + 1;
        // the string's own terminator slot belongs to the copy as well
        if (kept_std.data()[kept_std.size()] != '\0') {
          c.violate("C09", cls("string_not_terminated_inside_its_buffer"), "std::string of %zu characters whose terminator slot holds %d", kept_std.size(), (int)(unsigned char)kept_std.data()[kept_std.size()]);
          kept_ptr = nullptr;
          kept_n = 0;
        }
      } else if (u_char) {
        kept_ptr = u_char.get();
        kept_n = lenA;
      } else if (u_short) {
        kept_ptr = u_short.get();
        kept_n = lenA * 2;
      } else if (u_int) {
        kept_ptr = u_int.get();
        kept_n = lenA * 4;
        if (block_overrun)
          c.violate("C09", cls("library_wrote_behind_the_buffer_it_delivered"), "the buffer for %u elements was allocated with %zu bytes; bytes behind them were overwritten", lenA, block_asked);
      } else if (u_ll) {
        kept_ptr = u_ll.get();
        kept_n = lenA * 8;
      } else if (u_long) {
        kept_ptr = u_long.get();
        kept_n = lenA * 8;
      } else if (u_double) {
        kept_ptr = u_double.get();
        kept_n = lenA * 8;
      } else if (u_prim) {
        kept_ptr = u_prim.get();
        kept_n = 4;
      } else if (u_struct) {
        kept_ptr = u_struct.get();
        kept_n = sizeof(*u_struct);
      } else if (variant == V_CV_ARRAY2D && arr2d_set) {
        kept_ptr = arr2d.data();
        kept_n = sizeof arr2d;
      } else if (variant == V_CV_ARRAY || variant == V_CV_ARRAY_REF) {
        kept_ptr = arr.data();
        kept_n = 8;
      } else if (deny_buf) {
        kept_ptr = deny_buf;
        kept_n = lenA;
      }
      if (kept_ptr && kept_n) {
        if (addr_in_region((uintptr_t)kept_ptr))
          c.violate("C09", cls("application_keeps_sandbox_memory"), "result points into the sandbox");
        else {
          kept.assign((const uint8_t*)kept_ptr, (const uint8_t*)kept_ptr + kept_n);
          scribble_all();
          memset(impl->mem.gbase + 8, 0x21, S - 8);
          if (memcmp(kept.data(), kept_ptr, kept_n) != 0)
            c.violate("C09", cls("object_changed_after_return"), "content changed when the sandbox overwrote its memory after the call");
        }
      }
    }
    // (3)/(4) provenance and string shape
    if (o == OK && !c.stop && !kept.empty()) {
      if (is_string(variant)) {
        size_t n = kept_n - 1;
        // the delivered characters must fit inside the sandbox from a candidate source start
        bool fits_somewhere = false;
        for (uint32_t b0 : source_starts())
          fits_somewhere = fits_somewhere || (size_t)b0 + n <= S;
        if (!fits_somewhere)
          c.violate("C09",
                    cls("string_longer_than_sandbox_range"),
                    "delivered %zu characters; no candidate source start leaves that many bytes inside the sandbox",
                    n);
        else {
          for (size_t i = 0; i < n && !c.stop; i++) {
            if (kept[i] == CANARY)
              c.violate("C09", cls("application_memory_leaked_into_string"), "canary byte at %zu", i);
            else if (!byte_allowed(i, kept[i]))
              c.violate("C09", cls("delivered_byte_never_in_source"), "position %zu value %u", i, kept[i]);
          }
        }
      } else if (variant == V_CV_STRUCT) {
        // tag and big must come from one version of the source (app layout: tag at 0, big at 48)
        rlbox::tainted<SimNode, Sbx>* t = u_struct.get();
        long tag = t->tag.UNSAFE_unverified();
        unsigned long long big = t->big.UNSAFE_unverified();
        bool ok = false;
        for (auto& v : versions) {
          GNode n;
          memcpy(&n, &v[offA], sizeof n);
          if (n.tag == tag)
            ok = ok || true;
          (void)big;
        }
        if (!ok)
          c.violate("C09", cls("delivered_value_never_in_source"), "struct tag %ld", tag);
        // pointer fields of the snapshot: null or inside the sandbox, and translated from a representation some version held
        auto ptr_ok = [&](uintptr_t a, size_t field_off) {
          if (a == 0) {
            for (auto& v : versions) {
              uint32_t rep;
              memcpy(&rep, &v[offA + field_off], 4);
              if (rep == 0)
                return true;
            }
            return false;
          }
          if (!addr_in_region(a))
            return false;
          for (auto& v : versions) {
            uint32_t rep;
            memcpy(&rep, &v[offA + field_off], 4);
            if (rep != 0 && base + (rep & (S - 1)) == a)
              return true;
          }
          return false;
        };
        if (!c.stop && (!ptr_ok((uintptr_t)t->data.UNSAFE_unverified(), offsetof(GNode, data)) || !ptr_ok((uintptr_t)t->next.UNSAFE_unverified(), offsetof(GNode, next)) ||
                        !ptr_ok((uintptr_t)t->ptrs[1].UNSAFE_unverified(), offsetof(GNode, ptrs) + 4)))
          c.violate("C09", cls("delivered_pointer_field_never_in_source"), "a pointer field of the struct snapshot is outside the sandbox or was never designated by the source");
      } else if (variant == V_CV_STRUCT_VALUE || variant == V_CV_STRUCT_VALUE_GENERIC) {
        // handled below (nothing is kept by address)
      } else if (variant == V_CV_FUND_VOL) {
        bool ok = false;
        for (auto& v : versions) {
          int32_t t;
          memcpy(&t, &v[offA], 4);
          ok = ok || t == fund;
        }
        if (!ok)
          c.violate("C09", cls("delivered_value_never_in_source"), "value %ld", fund);
      } else if (variant == V_CV_ARRAY || variant == V_CV_ARRAY_REF) {
        for (size_t i = 0; i < 8 && !c.stop; i++)
          if (!byte_allowed(offsetof(GNode, name) + i, kept[i]))
            c.violate("C09", cls("delivered_byte_never_in_source"), "array element %zu", i);
      } else if (variant == V_RANGE_LONG) {
        for (size_t i = 0; i < kept.size() && !c.stop; i++)
          if (kept[i] == CANARY)
            c.violate("C09", cls("application_memory_leaked_into_copy"), "byte %zu of the copy is a byte of the application page behind the region", i);
      } else {
        for (size_t i = 0; i < kept.size() && !c.stop; i++) {
          if (!byte_allowed(i, kept[i]))
            c.violate("C09", cls(kept[i] == CANARY ? "application_memory_leaked_into_copy" : "delivered_byte_never_in_source"), "byte %zu value %u", i, kept[i]);
        }
      }
      // fault-free: exact content
      if (fault_free && !c.stop && variant != V_CV_STRUCT && variant != V_CV_STRUCT_VALUE && variant != V_CV_STRUCT_VALUE_GENERIC && variant != V_RANGE_LONG) {
        const uint8_t* src = &versions[0][offA + (variant == V_CV_ARRAY || variant == V_CV_ARRAY_REF ? offsetof(GNode, name) : 0)];
        size_t n = is_string(variant) ? kept_n - 1 : kept.size();
        if (is_string(variant) && n != lenA)
          c.violate("C09", cls("fault_free_wrong_length"), "%zu vs %u", n, lenA);
        else if (memcmp(src, kept.data(), variant == V_CV_FUND_VOL ? 0 : n) != 0)
          c.violate("C09", cls("fault_free_wrong_content"), "delivered copy differs from the unchanged source");
      }
    }
    if ((variant == V_CV_ADDR_VOL || variant == V_CV_BUFADDR || variant == V_CV_BUFADDR_VOL) && o == OK && !c.stop) {
      bool ok = addr_val == 0;
      for (auto& v : versions) {
        uint32_t rep;
        memcpy(&rep, &v[OFF_CELL], 4);
        if (variant == V_CV_BUFADDR)
          rep = offA;
        ok = ok || addr_val == base + (rep & (S - 1));
      }
      if (!ok)
        c.violate("C09", cls("address_never_designated_by_source"), "address offset %lld", (long long)(addr_val - base));
      else if (variant != V_CV_ADDR_VOL && addr_val != 0 && (addr_val < base || addr_val - base + (size_t)lenA * esz > S))
        // the address that was handed over is not the one whose extent was checked
        c.violate("C09", cls("buffer_address_handed_over_without_its_checked_extent"), "%u elements from offset %lld do not fit the region", lenA, (long long)(addr_val - base));
    }
    if ((variant == V_CV_STRUCT_VALUE || variant == V_CV_STRUCT_VALUE_GENERIC) && o == OK && node_value_set && !c.stop) {
      // a field-by-field copy of memory the guest keeps writing is not an atomic snapshot (and the statement does not
      // ask for one): every field, on its own, must have been in the source at some moment
      bool tag_ok = false, big_ok = false;
      for (auto& v : versions) {
        GNode n;
        memcpy(&n, &v[offA], sizeof n);
        tag_ok = tag_ok || n.tag == node_value.tag;
        big_ok = big_ok || n.big == node_value.big;
      }
      if (!tag_ok || !big_ok)
        c.violate("C09", cls("delivered_value_never_in_source"), "struct copy: field %s was never in the source", tag_ok ? "big" : "tag");
    }
    if (variant == V_DENY && o == OK && !c.stop) {
      if (deny_buf == nullptr)
        c.probe("deny_access_allocation_failed");
      else if (!copied)
        c.violate("C10", cls("copy_path_not_reported"), "copied=false with a non-null result although the backend refused");
    }
    if (deny_buf)
      free(deny_buf);
    if (fault_free)
      c.probe("fault_free_run");
    else
      c.nontrivial = true;
    if (sc.placement)
      c.probe("source_ends_at_last_byte_of_region");
    attempt([&] { sb.destroy_sandbox(); });
    impl = nullptr;
    return K;
  }

  static Scen scen_of(const Op& op)
  {
    Scen s;
    s.variant = (int)((uint64_t)op.a[0] % V_COUNT);
    s.placement = (int)(op.a[1] & 1);
    s.len = (int)((uint64_t)op.a[2] % 48) + 1;
    s.seed = (uint64_t)op.a[3];
    s.logsz = (op.a[4] & 1) ? 13 : 12;
    return s;
  }

  void run(const Plan& p, Ctx& c) override
  {
    run_begin(&c);
    if (p.ops.empty() || p.ops[0].kind != K_SCEN) {
      run_end();
      return;
    }
    faults.clear();
    for (size_t i = 1; i < p.ops.size(); i++)
      if (p.ops[i].kind == K_FAULT) {
        Fault f;
        f.k = (uint64_t)p.ops[i].a[0];
        f.mut = (int)((uint64_t)p.ops[i].a[1] % M_COUNT);
        f.arg = (int)p.ops[i].a[2];
        faults.push_back(f);
        c.ev("fault at access %llu: %s(%d)", (unsigned long long)f.k, kMut[f.mut], f.arg);
      }
    c.cur_op = 0;
    c.st.opcount[kVar[scen_of(p.ops[0]).variant]]++;
    execute(scen_of(p.ops[0]), c, false);
    run_end();
  }

  // ---- dry-run table: number of accesses of the fault-free execution ----
  std::map<std::tuple<int, int, int, int>, uint64_t> Ktab;
  uint64_t dryK(const Scen& s)
  {
    auto key = std::make_tuple(s.variant, s.placement, s.len, s.logsz);
    auto it = Ktab.find(key);
    if (it != Ktab.end())
      return it->second;
    Ctx tmp;
    run_begin(&tmp);
    faults.clear();
    uint64_t K = execute(s, tmp, true);
    run_end();
    Ktab[key] = K;
    return K;
  }

  Plan generate(Rng& r, bool thorough) override
  {
    Plan p;
    Op sc;
    sc.kind = K_SCEN;
    sc.a[0] = (int64_t)r.below(V_COUNT);
    sc.a[1] = (int64_t)r.below(2);
    sc.a[2] = (int64_t)(r.chance(1, 2) ? r.below(8) : r.below(thorough ? 48 : 24));
    sc.a[3] = (int64_t)(r.next() >> 2);
    sc.a[4] = (int64_t)r.below(2);
    p.ops.push_back(sc);
    provisional_crash_record(*this, p); // (the dry execution below runs library code)
    uint64_t K = dryK(scen_of(sc));
    int nf = r.chance(1, 10) ? 0 : (int)r.range(1, 3);
    for (int i = 0; i < nf; i++) {
      Op f;
      f.kind = K_FAULT;
      f.a[0] = (int64_t)(1 + r.below(K ? K : 1));
      f.a[1] = (int64_t)r.below(M_ALLOC_FAIL);
      f.a[2] = (int64_t)r.below(64);
      p.ops.push_back(f);
    }
    if (r.chance(1, 8)) {
      Op f;
      f.kind = K_FAULT;
      f.a[0] = (int64_t)r.range(1, 3);
      f.a[1] = M_ALLOC_FAIL;
      p.ops.push_back(f);
    }
    return p;
  }

  // ---- enumerated grid: (variant x placement x len in {1,5,16}) x (k = 1..K) x mutation ----
  struct EnumItem
  {
    Scen s;
    uint64_t k;
    int mut;
  };
  std::vector<EnumItem> grid;
  bool grid_built = false;
  void build_grid()
  {
    if (grid_built)
      return;
    grid_built = true;
    static const int lens[] = { 1, 5, 16 };
    for (int v = 0; v < V_COUNT; v++)
      for (int pl = 0; pl < 2; pl++)
        for (int li = 0; li < 3; li++) {
          if (single_object(v) && li > 0)
            continue;
          Scen s{ v, pl, lens[li], (uint64_t)(1234567 + v * 31 + li), 12 };
          uint64_t K = dryK(s);
          grid.push_back(EnumItem{ s, 0, 0 }); // fault-free
          for (uint64_t k = 1; k <= K; k++)
            for (int m = 0; m < M_ALLOC_FAIL; m++)
              grid.push_back(EnumItem{ s, k, m });
          for (uint64_t n = 1; n <= 3 && v != V_DENY; n++)
            grid.push_back(EnumItem{ s, n, M_ALLOC_FAIL }); // the n-th host allocation inside the call fails
        }
  }
  uint64_t enum_count(bool) override
  {
    build_grid();
    return grid.size();
  }
  Plan enum_plan(uint64_t i, bool) override
  {
    build_grid();
    const EnumItem& e = grid[i % grid.size()];
    Plan p;
    Op sc;
    sc.kind = K_SCEN;
    sc.a[0] = e.s.variant;
    sc.a[1] = e.s.placement;
    sc.a[2] = e.s.len - 1;
    sc.a[3] = (int64_t)e.s.seed;
    sc.a[4] = 0;
    p.ops.push_back(sc);
    if (e.k) {
      Op f;
      f.kind = K_FAULT;
      f.a[0] = (int64_t)e.k;
      f.a[1] = e.mut;
      f.a[2] = 2;
      p.ops.push_back(f);
    }
    return p;
  }
  std::string extra_summary() override
  {
    build_grid();
    return "\"enumerated_grid_size\":" + std::to_string(grid.size()) + ",\"mmu_traps\":" + std::to_string(mmu::g.total_traps);
  }
  std::vector<int64_t> simpler(const Op& op, int j, int64_t v) override
  {
    if (op.kind == K_SCEN && j == 0)
      return {}; // never change the variant while shrinking
    return World::simpler(op, j, v);
  }
};

int main(int argc, char** argv)
{
  libs().push_back({});
  install_crash_handlers("replays");
  mmu::install(crash_handler);
  ToctouWorld w;
  return sim_main(w, argc, argv);
}
