// World `transition` — property C19.
// Built three times: hooks only (-DTR_HOOKS), timing only (-DTR_TIMING), both.
// The clock is the simulator's (rlbox::high_resolution_clock shadows
// std::chrono's inside namespace rlbox).
#include <chrono>
#include <cstdint>
#include <vector>

struct HookEv
{
  bool in;
  int kind; // 0 INVOKE 1 CALLBACK
  const char* name;
  void* ptr;
  void* state;
};
static std::vector<HookEv> g_hooks;
static void sim_hook(bool in, int kind, const char* name, void* ptr, void* state)
{
  g_hooks.push_back(HookEv{ in, kind, name, ptr, state });
}
// TR_HOOKS: both notifications; TR_HOOKS_IN_ONLY / TR_HOOKS_OUT_ONLY: an application that defines just one of the two
#if defined(TR_HOOKS_IN_ONLY) || defined(TR_HOOKS_OUT_ONLY)
#  define TR_HOOKS
#endif
#if defined(TR_HOOKS) && !defined(TR_HOOKS_OUT_ONLY)
#  define RLBOX_TRANSITION_ACTION_IN(kind, name, ptr, state) sim_hook(true, (int)(kind), name, ptr, state)
#endif
#if defined(TR_HOOKS) && !defined(TR_HOOKS_IN_ONLY)
#  define RLBOX_TRANSITION_ACTION_OUT(kind, name, ptr, state) sim_hook(false, (int)(kind), name, ptr, state)
#endif
#ifdef TR_TIMING
#  define RLBOX_MEASURE_TRANSITION_TIMES
static std::vector<int64_t> g_clock_reads; // simulated clock value at every read
static int64_t g_clock_now;
static uint64_t g_clock_seed;
static bool g_clock_jumps;
static int g_clock_jumped;
namespace rlbox {
struct high_resolution_clock
{
  using duration = std::chrono::nanoseconds;
  using rep = duration::rep;
  using period = duration::period;
  using time_point = std::chrono::time_point<high_resolution_clock>;
  static constexpr bool is_steady = true;
  static time_point now() noexcept
  {
    g_clock_seed = g_clock_seed * 6364136223846793005ULL + 1442695040888963407ULL;
    g_clock_now += 1 + (int64_t)((g_clock_seed >> 33) % 1000);
    if (g_clock_jumps && (g_clock_seed >> 43) % 24 == 0) {
      // the clock leaps forward by a few seconds between two readings (the process was stopped, the machine suspended)
      g_clock_now += (int64_t)2200000000 + (int64_t)((g_clock_seed >> 20) % 3000000000u);
      g_clock_jumped++;
    }
    g_clock_reads.push_back(g_clock_now);
    return time_point(duration(g_clock_now));
  }
};
}
#endif

#include "../sim/world_common.hpp"
#include "../sim/aligned_new.hpp" // (blocks are overwritten when they are given back: a record that points into one shows it)
#include "rlbox_noop_sandbox.hpp"
#include <functional>
#include <memory>

using namespace sim;
using SimSbx = rlbox::rlbox_sim_sandbox;
using NoopSbx = rlbox::rlbox_noop_sandbox;

extern "C" long g_multi(long (*cb)(long, unsigned), long a, unsigned b, int times);
extern "C" long g_not_exported(long a); // declared to the application, absent from the sim guest's library

// ---------------------------------------------------------------- script tree
struct AbortCtl
{
  int counter = 0; // running index of potential abort points, in execution order
  int fire1 = 0, fire2 = 0;
  bool hit()
  {
    counter++;
    return counter == fire1 || counter == fire2;
  }
};
struct Node
{
  int s = 0; // sandbox
  int cbsel = 0; // which of the sandbox's two registered callbacks the guest calls
  int width = 0; // callback calls the guest makes
  bool unrep_arg = false; // candidate: argument not representable (sim only) -> invoke aborts before the guest runs
  struct Child
  {
    bool has_nested = false;
    int nested = -1; // index into nodes
    bool catch_inner = false;
    bool change_state = false;
  };
  std::vector<Child> ch;
};
struct Tree
{
  std::vector<Node> nodes; // nodes[0] is the root invoke
};
static Tree make_tree(uint64_t seed, int maxdepth, int maxwidth, int nsbx)
{
  Tree t;
  Rng r(seed);
  std::function<int(int)> gen = [&](int depth) -> int {
    int idx = (int)t.nodes.size();
    t.nodes.emplace_back();
    Node n;
    n.s = (int)r.below((uint64_t)nsbx);
    n.cbsel = (int)r.below(2);
    n.width = depth >= maxdepth ? (int)r.below(2) : (int)r.below((uint64_t)maxwidth + 1);
    for (int i = 0; i < n.width; i++) {
      Node::Child c;
      c.has_nested = depth < maxdepth && r.chance(3, 5);
      c.catch_inner = r.chance(1, 3);
      c.change_state = r.chance(1, 4);
      if (c.has_nested)
        c.nested = gen(depth + 1);
      n.ch.push_back(c);
    }
    t.nodes[(size_t)idx] = n;
    return idx;
  };
  gen(1);
  return t;
}

// expected event: hook or timing record
struct ExpHook
{
  bool in;
  int kind;
  int s; // sandbox (identity + state resolved at comparison time via recorded values)
  bool optional; // IN/OUT pair of an invoke that aborted before the guest was entered
  void* state;
  int fn; // callback: function index of the registered callback
};

struct SimAbort
{};

enum Kind
{
  K_TREE,
  K_COUNT
};
static const char* kKind[] = { "tree" };

template<class Sbx>
struct BT;
template<>
struct BT<SimSbx>
{
  static constexpr bool foreign = true;
  static constexpr bool wide_guest = sizeof(SimSbx::T_IntType) > sizeof(int); // build `wide`: the guest's int has 64 bits
  static void create(rlbox::rlbox_sandbox<SimSbx>& sb) { sb.create_sandbox(0); }
  template<class O>
  static long multi(rlbox::rlbox_sandbox<SimSbx>& sb, O& owner, long a, unsigned b, int times)
  {
    return sb.invoke_sandbox_function(g_multi, owner, a, b, times).UNSAFE_unverified();
  }
  static long missing(rlbox::rlbox_sandbox<SimSbx>& sb) { return sb.invoke_sandbox_function(g_not_exported, 5).UNSAFE_unverified(); }
  static void* fn_identity(rlbox::rlbox_sandbox<SimSbx>&) { return libs()[0][0].host; }
  static const char* fn_name() { return "g_multi"; }
};
template<>
struct BT<NoopSbx>
{
  static constexpr bool foreign = false;
  static constexpr bool wide_guest = false;
  static void create(rlbox::rlbox_sandbox<NoopSbx>& sb) { sb.create_sandbox(); }
  static inline bool nameless = false; // this run invokes through the bare function pointer, without a name
  template<class O>
  static long multi(rlbox::rlbox_sandbox<NoopSbx>& sb, O& owner, long a, unsigned b, int times)
  {
    return sb.template INTERNAL_invoke_with_func_ptr<decltype(g_multi)>(nameless ? nullptr : "g_multi", reinterpret_cast<void*>(&g_multi), owner, a, b, times).UNSAFE_unverified();
  }
  static long missing(rlbox::rlbox_sandbox<NoopSbx>&) { return 0; }
  static const char* fn_name() { return nameless ? nullptr : "g_multi"; }
  static void* fn_identity(rlbox::rlbox_sandbox<NoopSbx>&) { return reinterpret_cast<void*>(&g_multi); }
};

// callback body dispatch (type erased)
static std::function<long(void* sbx)> g_body;
template<class Sbx, int N>
static rlbox::tainted<long, Sbx> cbT(rlbox::rlbox_sandbox<Sbx>& sb, rlbox::tainted<long, Sbx>, rlbox::tainted<unsigned, Sbx>)
{
  return g_body(&sb);
}

template<class Sbx>
struct Runner
{
  using Sandbox = rlbox::rlbox_sandbox<Sbx>;
  using Owner = rlbox::sandbox_callback<long (*)(long, unsigned), Sbx>;
  Ctx& c;
  int nsbx;
  std::vector<std::unique_ptr<Sandbox>> sb;
  std::vector<std::unique_ptr<Owner>> own;
  std::vector<void*> keys;
  std::vector<void*> state; // model of each sandbox's current transition state
  static inline int state_objs[64];
  int next_state = 0;
  Tree tree;
  AbortCtl ctl;
  std::vector<ExpHook> exp;
  struct ExpTiming
  {
    int s, kind;
    size_t enter_read, exit_read;
    bool optional;
  };
  std::vector<ExpTiming> expt;
  size_t model_reads = 0;
  std::vector<int> cur_node; // stack of node indices being executed (real side)
  std::vector<int> cur_child;

  Runner(Ctx& ctx, int n)
    : c(ctx)
    , nsbx(n)
  {}

  // ---- model: expected hook sequence (throws SimAbort to model unwinding) ----
  void model_invoke(int ni, AbortCtl& a, std::vector<void*>& st)
  {
    const Node& n = tree.nodes[(size_t)ni];
    bool abort_args = BT<Sbx>::foreign && a.hit();
    size_t enter_read = model_reads++;
    if (abort_args) {
      exp.push_back(ExpHook{ true, 0, n.s, true, st[(size_t)n.s], missing_symbol_mode ? -2 : -1 });
      exp.push_back(ExpHook{ false, 0, n.s, true, st[(size_t)n.s], missing_symbol_mode ? -2 : -1 });
      expt.push_back(ExpTiming{ n.s, 0, enter_read, model_reads++, true });
      throw SimAbort();
    }
    exp.push_back(ExpHook{ true, 0, n.s, false, st[(size_t)n.s], -1 });
    auto close = [&] {
      exp.push_back(ExpHook{ false, 0, n.s, false, st[(size_t)n.s], -1 });
      expt.push_back(ExpTiming{ n.s, 0, enter_read, model_reads++, false });
    };
    try {
      for (int i = 0; i < n.width; i++) {
        if (BT<Sbx>::foreign && a.hit())
          throw SimAbort(); // guest trap before callback call i
        model_callback(ni, i, a, st);
      }
      if (BT<Sbx>::foreign && a.hit())
        throw SimAbort(); // guest trap at the end
    } catch (SimAbort&) {
      close();
      throw;
    }
    close();
  }
  void model_callback(int ni, int i, AbortCtl& a, std::vector<void*>& st)
  {
    const Node& n = tree.nodes[(size_t)ni];
    const Node::Child& ch = n.ch[(size_t)i];
    size_t enter_read = model_reads++;
    exp.push_back(ExpHook{ false, 1, n.s, false, st[(size_t)n.s], n.s * 2 + n.cbsel }); // OUT(CALLBACK)
    auto close = [&] {
      exp.push_back(ExpHook{ true, 1, n.s, false, st[(size_t)n.s], n.s * 2 + n.cbsel }); // IN(CALLBACK) carries the state at that moment
      expt.push_back(ExpTiming{ n.s, 1, enter_read, model_reads++, false });
    };
    try {
      if (BT<Sbx>::wide_guest && a.hit())
        throw SimAbort(); // the guest passes an argument that the application's type cannot hold: the callback is left
                          // (announced) but its body never runs
      if (a.hit())
        throw SimAbort(); // body aborts at its start
      if (ch.change_state)
        st[(size_t)n.s] = &state_objs[(next_state_model++) % 64];
      if (ch.has_nested) {
        if (ch.catch_inner) {
          try {
            model_invoke(ch.nested, a, st);
          } catch (SimAbort&) {
          }
        } else
          model_invoke(ch.nested, a, st);
      }
      if (a.hit())
        throw SimAbort(); // body aborts after the nested crossing
      if (BT<Sbx>::foreign && a.hit())
        throw SimAbort(); // result not representable
    } catch (SimAbort&) {
      close();
      throw;
    }
    close();
  }
  int next_state_model = 0;

  // ---- real execution ----
  long real_invoke(int ni)
  {
    const Node& n = tree.nodes[(size_t)ni];
    bool abort_args = BT<Sbx>::foreign && ctl.hit();
    long a = abort_args ? (1L << 40) : 5;
    // the guest's own abort points are taken by the guest function, which asks the same controller
    cur_node.push_back(ni);
    struct Pop
    {
      std::vector<int>& v;
      ~Pop() { v.pop_back(); }
    } pop{ cur_node };
    if (abort_args && missing_symbol_mode) {
      // same place in the model (an invocation that ends before the guest is entered), other cause: the function is not
      // exported and the backend resolves it to null
      c.fired("F10_function_not_exported_resolves_to_null");
      return BT<Sbx>::missing(*sb[(size_t)n.s]);
    }
    if (abort_args)
      c.fired("F9_abort_at_argument_conversion");
    return BT<Sbx>::multi(*sb[(size_t)n.s], *own[(size_t)(n.s * 2 + n.cbsel)], a, 1u, n.width);
  }

  long body(void* sbx)
  {
    int ni = cur_node.back();
    const Node& n = tree.nodes[(size_t)ni];
    if (sbx != sb[(size_t)n.s].get() && wrong_ref_of < 0)
      wrong_ref_of = n.s; // reported (C12) after the notifications have been compared, so that both properties see the run
    int i = child_index.back()++;
    const Node::Child& ch = n.ch[(size_t)i];
    if (ctl.hit()) {
      c.fired("F9_abort_in_callback_body");
      throw std::runtime_error("scripted abort in callback body");
    }
    if (ch.change_state) {
      void* ns = &state_objs[(next_state++) % 64];
      sb[(size_t)n.s]->set_transition_state(ns);
      state[(size_t)n.s] = ns;
      c.probe("transition_state_changed_inside_callback");
    }
    if (ch.has_nested) {
      child_index.push_back(0);
      struct Pop
      {
        std::vector<int>& v;
        ~Pop() { v.pop_back(); }
      } pop{ child_index };
      if (ch.catch_inner) {
        try {
          real_invoke(ch.nested);
        } catch (const std::runtime_error&) {
          c.probe("inner_abort_caught_by_outer_callback");
        } catch (const GuestTrap&) {
          c.probe("inner_abort_caught_by_outer_callback");
        }
      } else
        real_invoke(ch.nested);
    }
    if (ctl.hit()) {
      c.fired("F9_abort_in_callback_body");
      throw std::runtime_error("scripted abort in callback body (late)");
    }
    if (BT<Sbx>::foreign && ctl.hit()) {
      c.fired("F9_unrepresentable_callback_result");
      return 1L << 40;
    }
    return 7;
  }
  std::vector<int> child_index;
  int wrong_ref_of = -1;
  bool missing_symbol_mode = false;

  void run(const Plan& p)
  {
    const Op& op = p.ops[0];
    int maxdepth = 1 + (int)((uint64_t)op.a[1] % 4), maxwidth = 1 + (int)((uint64_t)op.a[2] % 3);
    tree = make_tree((uint64_t)op.a[0], maxdepth, maxwidth, nsbx);
    ctl.fire1 = (int)op.a[3];
    ctl.fire2 = (int)op.a[4];
    missing_symbol_mode = BT<Sbx>::foreign && (((uint64_t)op.a[5] >> 15) & 1);
    SimSbx::cfg.lookup_null_on_missing = missing_symbol_mode;
    c.ev("tree seed=%llu nodes=%zu depth<=%d width<=%d fire=%d,%d", (unsigned long long)op.a[0], tree.nodes.size(), maxdepth, maxwidth, ctl.fire1, ctl.fire2);
#ifdef TR_TIMING
    g_clock_reads.clear();
    g_clock_now = 0;
    g_clock_seed = (uint64_t)op.a[5] + 17;
    g_clock_jumps = (((uint64_t)op.a[5] >> 16) & 3) == 1;
    g_clock_jumped = 0;
#endif
    for (int s = 0; s < nsbx; s++) {
      sb.push_back(std::make_unique<Sandbox>());
      void* st0 = &state_objs[(next_state++) % 64];
      // when the application installs the state: after create (usual), before create, or before an earlier incarnation
      int when = (int)(((uint64_t)op.a[5] >> (8 + 2 * s)) % 3);
      if (when == 1) {
        sb.back()->set_transition_state(st0);
        BT<Sbx>::create(*sb.back());
        c.probe("transition_state_installed_before_create");
      } else if (when == 2) {
        BT<Sbx>::create(*sb.back());
        sb.back()->set_transition_state(st0);
        sb.back()->destroy_sandbox();
        BT<Sbx>::create(*sb.back());
        c.probe("transition_state_installed_in_earlier_incarnation");
      } else {
        BT<Sbx>::create(*sb.back());
        sb.back()->set_transition_state(st0);
      }
      if (sb.back()->get_transition_state() != st0)
        c.violate("C19", "transition_state_lost@tree", "sandbox #%d: get_transition_state() does not return what was installed (order %d)", s, when);
      state.push_back(st0);
    }
    next_state_model = next_state;
    // one callback function per sandbox (distinct keys)
    // two callbacks per sandbox (distinct functions, hence distinct keys and distinct backend slots)
    if (nsbx > 0) {
      own.push_back(std::make_unique<Owner>(sb[0]->register_callback(cbT<Sbx, 0>)));
      keys.push_back(reinterpret_cast<void*>(&cbT<Sbx, 0>));
      own.push_back(std::make_unique<Owner>(sb[0]->register_callback(cbT<Sbx, 1>)));
      keys.push_back(reinterpret_cast<void*>(&cbT<Sbx, 1>));
    }
    if (nsbx > 1) {
      own.push_back(std::make_unique<Owner>(sb[1]->register_callback(cbT<Sbx, 2>)));
      keys.push_back(reinterpret_cast<void*>(&cbT<Sbx, 2>));
      own.push_back(std::make_unique<Owner>(sb[1]->register_callback(cbT<Sbx, 3>)));
      keys.push_back(reinterpret_cast<void*>(&cbT<Sbx, 3>));
    }
    g_hooks.clear();
    g_body = [&](void* sbx) { return body(sbx); };
#ifdef TR_TIMING
    // some crossings happen before the records are cleared: neither the records nor the totals may remember them
    if (((uint64_t)op.a[5] >> 14) & 1) {
      for (int s = 0; s < nsbx; s++)
        attempt([&] { BT<Sbx>::multi(*sb[(size_t)s], *own[(size_t)(s * 2)], 5, 1u, 0); });
      c.probe("crossings_before_the_records_were_cleared");
    }
    for (auto& s : sb)
      s->clear_transition_times();
    reads_before_root = g_clock_reads.size();
#endif
    g_hooks.clear(); // (again: the warm-up crossings above are not part of the tree)
    // model first (its own controller and state copy)
    AbortCtl mctl = ctl;
    std::vector<void*> mstate = state;
    bool model_threw = false;
    try {
      model_invoke(0, mctl, mstate);
    } catch (SimAbort&) {
      model_threw = true;
    }
    // real
    child_index.push_back(0);
    // the guest consults the controller for its own abort points
    g_guest_ctl = &ctl;
    Outcome o = attempt([&] { real_invoke(0); });
    g_guest_ctl = nullptr;
    c.ev("root invoke -> %s (model %s), %zu hook events, abort points seen %d", oname(o), model_threw ? "abort" : "ok", g_hooks.size(), ctl.counter);
    if ((o != OK) != model_threw)
      c.violate("C19", "harness_model_out_of_sync@tree", "real outcome %s, model %s", oname(o), model_threw ? "abort" : "ok");
    if (model_threw)
      c.nontrivial = true;
    c.st.steps += g_hooks.size();

#ifdef TR_HOOKS
    // ---- compare hook sequence (optional pairs may be present or absent: backtracking matcher) ----
    if (!c.stop) {
      auto same = [&](const ExpHook& e, const HookEv& h) {
        if (h.in != e.in || h.kind != e.kind || h.state != e.state)
          return false;
        if (e.kind == 0 && e.fn == -2) // the function that is not exported: announced (if at all) under its name, with the null address it resolved to
          return h.name && strcmp(h.name, "g_not_exported") == 0 && h.ptr == nullptr;
        if (e.kind == 0)
          return (BT<Sbx>::fn_name() ? (h.name && strcmp(h.name, "g_multi") == 0) : h.name == nullptr) && h.ptr == BT<Sbx>::fn_identity(*sb[(size_t)e.s]);
        return h.name == nullptr && h.ptr == keys[(size_t)e.fn];
      };
#if defined(TR_HOOKS_IN_ONLY) || defined(TR_HOOKS_OUT_ONLY)
      // only one of the two notifications is defined: the expected sequence is the full one with the other kind left out
      {
        std::vector<ExpHook> kept;
        for (auto& e : exp)
#  ifdef TR_HOOKS_IN_ONLY
          if (e.in)
#  else
          if (!e.in)
#  endif
            kept.push_back(e);
        exp.swap(kept);
      }
      constexpr bool single_kind = true;
#else
      constexpr bool single_kind = false;
#endif
      size_t best_e = 0, best_g = 0;
      std::function<bool(size_t, size_t)> match = [&](size_t ei, size_t gi) -> bool {
        if (ei + gi > best_e + best_g) {
          best_e = ei;
          best_g = gi;
        }
        if (ei == exp.size())
          return gi == g_hooks.size();
        const ExpHook& e = exp[ei];
        if (e.optional && single_kind) {
          // what is left of an optional pair: present or absent
          if (gi < g_hooks.size() && same(e, g_hooks[gi]) && match(ei + 1, gi + 1))
            return true;
          return match(ei + 1, gi);
        }
        if (e.optional) {
          // pair (ei, ei+1): both present or both absent
          if (gi + 1 < g_hooks.size() && same(e, g_hooks[gi]) && same(exp[ei + 1], g_hooks[gi + 1]) && match(ei + 2, gi + 2))
            return true;
          return match(ei + 2, gi);
        }
        return gi < g_hooks.size() && same(e, g_hooks[gi]) && match(ei + 1, gi + 1);
      };
      if (!match(0, 0)) {
        // describe the first point where the best partial match stopped
        size_t ei = best_e, gi = best_g;
        auto nm = [](bool in, int kind) { return in ? (kind ? "IN(CALLBACK)" : "IN(INVOKE)") : (kind ? "OUT(CALLBACK)" : "OUT(INVOKE)"); };
        const char* cls;
        if (ei >= exp.size())
          cls = "extra_notification@tree";
        else if (gi >= g_hooks.size())
          cls = "missing_notification@tree";
        else if (g_hooks[gi].in == exp[ei].in && g_hooks[gi].kind == exp[ei].kind && g_hooks[gi].state != exp[ei].state)
          cls = "wrong_transition_state@tree";
        else if (g_hooks[gi].in == exp[ei].in && g_hooks[gi].kind == exp[ei].kind)
          cls = "wrong_function_identity@tree";
        else
          cls = "wrong_notification_order@tree";
        c.violate("C19",
                  cls,
                  "after %zu matching notifications: expected %s of sandbox #%d, got %s (%zu recorded, %zu expected)",
                  gi,
                  ei < exp.size() ? nm(exp[ei].in, exp[ei].kind) : "end of sequence",
                  ei < exp.size() ? exp[ei].s : -1,
                  gi < g_hooks.size() ? nm(g_hooks[gi].in, g_hooks[gi].kind) : "end of sequence",
                  g_hooks.size(),
                  exp.size());
      }
    }
#endif
#ifdef TR_TIMING
    if (!c.stop) {
      // exactly one record per crossing of that sandbox, right kind and identity, time within the simulated span
      for (int s = 0; s < nsbx && !c.stop; s++) {
        size_t inv_min = 0, inv_opt = 0, cbs = 0;
        for (auto& e : expt)
          if (e.s == s) {
            if (e.kind == 1)
              cbs++;
            else if (e.optional)
              inv_opt++;
            else
              inv_min++;
          }
        auto& v = sb[(size_t)s]->process_and_get_transition_times();
        size_t got_inv = 0, got_cb = 0;
        for (auto& rec : v) {
          bool is_inv = rec.invoke == rlbox::rlbox_transition::INVOKE;
          (is_inv ? got_inv : got_cb)++;
          // every clock reading advances the simulated clock by at least 1 ns, so a crossing measured with two readings lasts >= 1 ns
          if (rec.time < 1 || rec.time > g_clock_now) {
            c.violate("C19", "timing_record_out_of_simulated_range@tree", "time %lld (simulated span %lld ns; every crossing spans at least two clock readings)", (long long)rec.time, (long long)g_clock_now);
            break;
          }
          if (is_inv && missing_symbol_mode && rec.name && strcmp(rec.name, "g_not_exported") == 0 && rec.ptr == nullptr)
            continue; // the (optional) record of an invocation of the function that is not exported
          if (is_inv ? ((BT<Sbx>::fn_name() ? (!rec.name || strcmp(rec.name, "g_multi") != 0) : rec.name != nullptr) || rec.ptr != BT<Sbx>::fn_identity(*sb[(size_t)s])) : (rec.ptr != keys[(size_t)s * 2] && rec.ptr != keys[(size_t)s * 2 + 1])) {
            c.violate("C19", "timing_record_wrong_identity@tree", "a %s record of sandbox #%d", is_inv ? "INVOKE" : "CALLBACK", s);
            break;
          }
        }
        if (c.stop)
          break;
        if (got_cb != cbs || got_inv < inv_min || got_inv > inv_min + inv_opt)
          c.violate("C19",
                    got_cb < cbs || got_inv < inv_min ? "missing_timing_record@tree" : "extra_timing_record@tree",
                    "sandbox #%d: %zu INVOKE and %zu CALLBACK records; crossings: %zu(+%zu aborted before entry) invocations, %zu callbacks",
                    s,
                    got_inv,
                    got_cb,
                    inv_min,
                    inv_opt,
                    cbs);
      }
      // exact durations: when every bracket is mandatory the model knows which two clock readings delimit it
      bool any_optional = false;
      for (auto& e : expt)
        any_optional = any_optional || e.optional;
      if (!c.stop && !any_optional && reads_before_root + model_reads == g_clock_reads.size()) {
        std::vector<size_t> pos((size_t)nsbx, 0);
        for (auto& e : expt) {
          auto& v = sb[(size_t)e.s]->process_and_get_transition_times();
          size_t k = pos[(size_t)e.s]++;
          if (k >= v.size())
            break;
          int64_t want = g_clock_reads[reads_before_root + e.exit_read] - g_clock_reads[reads_before_root + e.enter_read];
          if (v[k].time != want) {
            c.violate("C19", "timing_record_wrong_duration@tree", "record %zu of sandbox #%d: %lld ns, the clock readings that delimit this crossing are %lld ns apart", k, e.s, (long long)v[k].time, (long long)want);
            break;
          }
        }
        c.probe("timing_durations_checked_exactly");
      }
      // the aggregate the library offers must equal (sum of invocation records) - (sum of callback records)
      for (int s = 0; s < nsbx && !c.stop; s++) {
        int64_t want = 0;
        for (auto& rec : sb[(size_t)s]->process_and_get_transition_times())
          want += rec.invoke == rlbox::rlbox_transition::INVOKE ? rec.time : -rec.time;
        if (sb[(size_t)s]->get_total_ns_time_in_sandbox_and_transitions() != want)
          c.violate("C19", "timing_total_inconsistent_with_records@tree", "sandbox #%d", s);
      }
      c.st.sim_ns += (uint64_t)g_clock_now;
      if (g_clock_jumped)
        c.fired("F14_clock_leaps_forward_by_seconds");
    }
#endif
    if (wrong_ref_of >= 0)
      c.violate("C12", "wrong_sandbox_reference@tree", "callback of sandbox #%d received another sandbox", wrong_ref_of);
    g_body = nullptr;
    own.clear();
    for (auto& s : sb)
      attempt([&] { s->destroy_sandbox(); });
#ifdef TR_TIMING
    // the records outlive the incarnation they were taken in (end-of-run statistics): each still names its function
    for (int s = 0; s < nsbx && !c.stop; s++)
      for (auto& rec : sb[(size_t)s]->process_and_get_transition_times())
        if (rec.invoke == rlbox::rlbox_transition::INVOKE && BT<Sbx>::fn_name() &&
            (!rec.name || (strncmp(rec.name, "g_multi", 8) != 0 && strncmp(rec.name, "g_not_exported", 15) != 0))) {
          c.violate("C19", "timing_record_lost_its_identity_after_destroy@tree", "an INVOKE record of sandbox #%d no longer carries the name of the function once the sandbox is destroyed", s);
          break;
        }
    c.probe("timing_records_read_after_destroy");
#endif
  }
  static inline AbortCtl* g_guest_ctl = nullptr;
  size_t reads_before_root = 0;
};

struct TransitionWorld : World
{
  const char* name() const override { return "transition"; }
  const char* op_name(int k) const override { return kKind[k]; }
  int op_kind_count() const override { return K_COUNT; }

  Plan generate(Rng& r, bool thorough) override
  {
    Plan p;
    p.cfg = { (int64_t)r.below(2), (int64_t)r.range(1, 2) };
    Op o;
    o.kind = K_TREE;
    o.a[0] = (int64_t)(r.next() >> 2);
    o.a[1] = (int64_t)r.below(thorough ? 4 : 3);
    o.a[2] = (int64_t)r.below(3);
    o.a[3] = r.chance(1, 6) ? 0 : (int64_t)r.range(1, 30);
    o.a[4] = r.chance(2, 3) ? 0 : (int64_t)r.range(1, 40);
    o.a[5] = (int64_t)r.below(256) | ((int64_t)r.below(16) << 8) | ((int64_t)r.below(4) << 12) | ((int64_t)r.below(2) << 14) | ((int64_t)r.chance(1, 4) << 15) | ((int64_t)r.below(4) << 16);
    p.ops.push_back(o);
    return p;
  }

  void run(const Plan& p, Ctx& c) override
  {
    if (p.ops.empty())
      return;
    run_begin(&c);
    SimSbx::cfg = SimSbx::Config();
    SimSbx::cfg.size = 4096;
    int backend = p.cfg.empty() ? 0 : (int)(p.cfg[0] & 1);
    int nsbx = p.cfg.size() > 1 ? (int)p.cfg[1] : 1;
    if (nsbx < 1)
      nsbx = 1;
    if (nsbx > 2)
      nsbx = 2;
    c.ev("backend %d nsbx %d", backend, nsbx);
    c.st.opcount[backend ? "tree_noop" : "tree_sim"]++;
    if (backend == 0) {
      Runner<SimSbx> r(c, nsbx);
      r.run(p);
    } else {
      // every fourth run on the real backend invokes through the bare function pointer, without a name
      BT<NoopSbx>::nameless = ((uint64_t)p.ops[0].a[5] >> 12) % 4 == 3;
      if (BT<NoopSbx>::nameless)
        c.probe("invocation_without_a_function_name");
      Runner<NoopSbx> r(c, nsbx);
      r.run(p);
      BT<NoopSbx>::nameless = false;
    }
    run_end();
  }

  // enumerated: 24 tree shapes (depth<=3, width<=2) x backend x 1-2 sandboxes x every single abort position
  struct Item
  {
    uint64_t seed;
    int backend, nsbx, fire;
  };
  std::vector<Item> grid;
  void build()
  {
    if (!grid.empty())
      return;
    for (uint64_t shape = 0; shape < 24; shape++)
      for (int backend = 0; backend < 2; backend++)
        for (int nsbx = 1; nsbx <= 2; nsbx++)
          for (int fire = 0; fire <= 28; fire++)
            grid.push_back(Item{ 1000 + shape * 7919, backend, nsbx, fire });
  }
  uint64_t enum_count(bool) override
  {
    build();
    return grid.size();
  }
  Plan enum_plan(uint64_t i, bool) override
  {
    build();
    const Item& it = grid[i % grid.size()];
    Plan p;
    p.cfg = { it.backend, it.nsbx };
    Op o;
    o.kind = K_TREE;
    o.a[0] = (int64_t)it.seed;
    o.a[1] = 2; // depth <= 3
    o.a[2] = 1; // width <= 2
    o.a[3] = it.fire;
    p.ops.push_back(o);
    return p;
  }
  std::vector<int64_t> simpler(const Op&, int j, int64_t v) override
  {
    if (j == 0)
      return {}; // the tree seed is not a magnitude
    std::vector<int64_t> r;
    if (v > 0)
      r.push_back(v - 1);
    if (v > 1)
      r.push_back(0);
    return r;
  }
};

// the sim guest asks the controller at its own abort points
static AbortCtl*& guest_ctl()
{
  return Runner<SimSbx>::g_guest_ctl;
}
using GInt = SimSbx::T_IntType;
using GUInt = std::make_unsigned_t<GInt>;
static int32_t sim_guest_multi(uint32_t idx, int32_t a, GUInt b, GInt times)
{
  AbortCtl* ctl = guest_ctl();
  uint32_t acc = 0;
  for (int i = 0; i < times; i++) {
    if (ctl && ctl->hit()) {
      if (g_ctx)
        g_ctx->fired("F9_guest_trap");
      throw GuestTrap{ "scripted guest trap" };
    }
    GUInt bb = b;
    if (BT<SimSbx>::wide_guest && ctl && ctl->hit()) {
      if (g_ctx)
        g_ctx->fired("F9_unrepresentable_callback_argument");
      bb = (GUInt)((uint64_t)1 << 40);
    }
    int32_t r = SimSbx::guest_call<int32_t, int32_t, GUInt>(idx, a + i, bb);
    acc = acc * 31u + (uint32_t)r;
  }
  if (ctl && ctl->hit()) {
    if (g_ctx)
      g_ctx->fired("F9_guest_trap");
    throw GuestTrap{ "scripted guest trap at end" };
  }
  return (int32_t)(acc & 0x7fffffffu);
}

int main(int argc, char** argv)
{
  libs().push_back({ { "g_multi", (void*)&sim_guest_multi } });
  install_crash_handlers("replays");
  install_segv_handler();
  TransitionWorld w;
  return sim_main(w, argc, argv);
}
