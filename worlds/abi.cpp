// World `abi` — the guest's `int` is WIDER than the application's (build flag SIM_WIDE_INT makes the stub's
// T_IntType 64 bits; an ILP64-style guest on an LP64 host).  Every other world has a guest ABI that is narrower than or
// equal to the host's, so conversions towards the application only ever widen there.  Here results of invocations and
// arguments of callbacks can be unrepresentable in the application's type: they must be converted faithfully or the
// crossing must abort - never be truncated.  Properties C11 (results) and C12 (callback arguments / results).
// The same source also builds with the ordinary stub (guest int = 32 bits) as a control.
#include "../sim/world_common.hpp"
#include "../sim/mmu.hpp"
#include <climits>
#include <memory>

using namespace sim;
using Sbx = rlbox::rlbox_sim_sandbox;
using Sandbox = rlbox::rlbox_sandbox<Sbx>;
using GI = Sbx::T_IntType; // guest int
using GUI = std::make_unsigned_t<GI>; // guest unsigned

extern "C" {
int f_ri(int v, unsigned u);
int f_calli(int (*cb)(int, unsigned), int a, unsigned b);
}

struct GuestSaw
{
  int runs = 0;
  int64_t v = 0;
  uint64_t u = 0;
};
static GuestSaw g_ri, g_calli;
static int64_t g_ri_result; // what f_ri returns (in the guest's int)
static bool g_subst; // f_calli passes its own values to the callback
static int64_t g_subst_a;
static uint64_t g_subst_b;
static bool g_cb_returned;
static int64_t g_cb_result_seen;

struct G
{
  static GI ri(GI v, GUI u)
  {
    g_ri.runs++;
    g_ri.v = (int64_t)v;
    g_ri.u = (uint64_t)u;
    return (GI)g_ri_result;
  }
  static GI calli(uint32_t cb, GI a, GUI b)
  {
    g_calli.runs++;
    g_calli.v = (int64_t)a;
    g_calli.u = (uint64_t)b;
    if (g_subst) {
      a = (GI)g_subst_a;
      b = (GUI)g_subst_b;
    }
    GI r = Sbx::guest_call<GI, GI, GUI>(cb, a, b);
    g_cb_returned = true;
    g_cb_result_seen = (int64_t)r;
    return r;
  }
};

struct CbSaw
{
  int runs = 0;
  void* sandbox = nullptr;
  int a = 0;
  unsigned b = 0;
};
static CbSaw g_cb;
static int g_cb_ret;
static rlbox::tainted<int, Sbx> app_cbI(Sandbox& sb, rlbox::tainted<int, Sbx> a, rlbox::tainted<unsigned, Sbx> b)
{
  g_cb.runs++;
  g_cb.sandbox = &sb;
  g_cb.a = a.UNSAFE_unverified();
  g_cb.b = b.UNSAFE_unverified();
  return g_cb_ret;
}

enum Kind
{
  A_RESULT,
  A_CALLBACK,
  A_READ_CELL,
  K_COUNT
};
static const char* kKind[] = { "int_result", "callback_with_int_arguments", "int_read_from_sandbox_memory" };

// the guest rewrites an int cell at RLBox's k-th access to it
struct CellFault
{
  uint8_t* gcell;
  uint64_t k;
  int64_t value;
  bool fired;
};
static void cell_hook(uint64_t k, uint32_t, bool, void* ud)
{
  auto* f = (CellFault*)ud;
  if (!f->fired && k == f->k) {
    GI v = (GI)f->value;
    memcpy(f->gcell, &v, sizeof v);
    f->fired = true;
  }
}

static int64_t pick64(Rng& r)
{
  static const int64_t c[] = { 0,           1,           -1,          INT_MAX,     (int64_t)INT_MAX + 1, INT_MIN,       (int64_t)INT_MIN - 1, (int64_t)UINT_MAX, (int64_t)UINT_MAX + 1,
                               (1LL << 32) + 5, -(1LL << 32) - 5, (1LL << 33) + 1, INT64_MAX,   INT64_MIN,     42,            -7 };
  unsigned k = (unsigned)r.below(10);
  if (k < 6)
    return c[r.below(sizeof(c) / sizeof(c[0]))];
  if (k < 8)
    return (int64_t)r.range(-100000, 100000);
  return (int64_t)r.next();
}

struct AbiWorld : World
{
  const char* name() const override { return "abi"; }
  const char* op_name(int k) const override { return kKind[k]; }
  int op_kind_count() const override { return K_COUNT; }

  Plan generate(Rng& r, bool thorough) override
  {
    Plan p;
    p.cfg = { (int64_t)r.below(2) };
    int n = (int)r.range(2, thorough ? 24 : 12);
    for (int i = 0; i < n; i++) {
      Op o;
      o.kind = (int)r.below(K_COUNT);
      o.a[0] = (int64_t)(r.next() >> 1);
      p.ops.push_back(o);
    }
    return p;
  }

  void run(const Plan& p, Ctx& c) override
  {
    run_begin(&c);
    Sbx::cfg = Sbx::Config();
    Sbx::cfg.size = 4096;
    Sbx::cfg.registry = !p.cfg.empty() && p.cfg[0];
    Sbx::cfg.mmu = true;
    constexpr bool wide = sizeof(GI) > sizeof(int);
    Sandbox sb;
    sb.create_sandbox(0);
    auto cb = sb.register_callback(app_cbI);
    for (size_t i = 0; i < p.ops.size() && !c.stop; i++) {
      const Op& op = p.ops[i];
      c.cur_op = (int)i;
      c.st.steps++;
      c.st.opcount[kKind[op.kind]]++;
      Rng r((uint64_t)op.a[0]);
      if (op.kind == A_RESULT) {
        int v = (int)pick64(r);
        unsigned u = (unsigned)pick64(r);
        g_ri = GuestSaw();
        g_ri_result = wide ? pick64(r) : (int64_t)(int32_t)pick64(r);
        bool fits = g_ri_result >= INT_MIN && g_ri_result <= INT_MAX;
        int got = 0;
        Outcome o = attempt([&] { got = sb.invoke_sandbox_function(f_ri, v, u).UNSAFE_unverified(); });
        c.ev("int_result guest returns %lld -> %s", (long long)g_ri_result, oname(o));
        if (!fits)
          c.fired("F9_result_not_representable_in_application_type");
        if (g_ri.runs != 1 || g_ri.v != (int64_t)v || g_ri.u != (uint64_t)u)
          c.violate("C11", "wrong_argument_values@int_result", "%d runs, guest saw (%lld,%llu) for (%d,%u)", g_ri.runs, (long long)g_ri.v, (unsigned long long)g_ri.u, v, u);
        else if (fits && (o != OK || got != (int)g_ri_result))
          c.violate("C11", "wrong_result@int_result", "guest returned %lld, application got %d (%s)", (long long)g_ri_result, got, oname(o));
        else if (!fits && o == OK)
          c.violate("C11", "unrepresentable_result_delivered_truncated@int_result", "guest returned %lld, which no int can hold; the application got %d", (long long)g_ri_result, got);
      } else if (op.kind == A_READ_CELL) {
        // an int that lives in sandbox memory is read (copy_and_verify on the value): the guest may rewrite it while the
        // library looks at it.  What comes out was in the cell at some moment, or the read aborts - a value that passed
        // the range check as one number must not be delivered as the truncation of another
        int64_t first = (int64_t)(int)pick64(r);
        int64_t second = wide ? pick64(r) : (int64_t)(int32_t)pick64(r);
        uint64_t k = r.below(4); // 0: no interference
        auto cell = sb.malloc_in_sandbox<int>();
        if (!cell)
          continue;
        uint8_t* gcell = sb.get_sandbox_impl()->mem.gbase + ((uintptr_t)cell.UNSAFE_unverified() - (uintptr_t)sb.get_sandbox_impl()->mem.base);
        GI init = (GI)first;
        memcpy(gcell, &init, sizeof init);
        CellFault cf{ gcell, k, second, false };
        int got = 0;
        mmu::arm(sb.get_sandbox_impl()->mem.base, sb.get_sandbox_impl()->mem.size, cell_hook, &cf);
        Outcome o = attempt([&] { got = (*cell).copy_and_verify([](int v) { return v; }); });
        mmu::disarm();
        c.st.steps += mmu::g.count;
        c.ev("int_read_from_sandbox_memory %lld then %lld at access %llu (fired %d) -> %s %d", (long long)first, (long long)second, (unsigned long long)k, (int)cf.fired, oname(o), got);
        if (cf.fired)
          c.fired("F2_int_cell_rewritten_between_accesses");
        bool second_fits = second >= INT_MIN && second <= INT_MAX;
        if (o == OK && !(got == (int)first || (cf.fired && second_fits && got == (int)second)))
          c.violate("C09", "delivered_value_never_in_source@int_read_from_sandbox_memory", "cell held %lld, then %lld; the application got %d", (long long)first, (long long)second, got);
        else if (o != OK && !(cf.fired && !second_fits))
          c.violate("C09", "read_of_representable_value_aborts@int_read_from_sandbox_memory", "cell held %lld%s: %s", (long long)first, cf.fired ? " (rewritten to a representable value)" : "", g_last_abort_msg.c_str());
        attempt([&] { sb.free_in_sandbox(cell); });
      } else {
        g_calli = GuestSaw();
        g_cb = CbSaw();
        g_cb_returned = false;
        g_subst = true;
        g_subst_a = wide ? pick64(r) : (int64_t)(int32_t)pick64(r);
        g_subst_b = wide ? (uint64_t)pick64(r) : (uint64_t)(uint32_t)pick64(r);
        g_cb_ret = (int)pick64(r);
        bool fits = g_subst_a >= INT_MIN && g_subst_a <= INT_MAX && g_subst_b <= UINT_MAX;
        int got = 0;
        Outcome o = attempt([&] { got = sb.invoke_sandbox_function(f_calli, cb, 1, 2u).UNSAFE_unverified(); });
        g_subst = false;
        c.ev("callback_with_int_arguments guest passes (%lld,%llu) -> %s", (long long)g_subst_a, (unsigned long long)g_subst_b, oname(o));
        c.probe("callback_called_with_guest_chosen_int_arguments");
        if (!fits)
          c.fired("F9_callback_argument_not_representable_in_application_type");
        if (g_calli.runs != 1) {
          c.violate("C11", "not_exactly_one_call@callback_with_int_arguments", "%d guest runs (%s)", g_calli.runs, oname(o));
        } else if (!fits) {
          if (g_cb.runs != 0 || o == OK)
            c.violate("C12", "unrepresentable_argument_delivered_truncated@callback_with_int_arguments", "guest passed (%lld,%llu); the callback ran %d times and saw (%d,%u); outcome %s", (long long)g_subst_a, (unsigned long long)g_subst_b, g_cb.runs, g_cb.a, g_cb.b, oname(o));
        } else if (g_cb.runs != 1 || g_cb.sandbox != &sb || g_cb.a != (int)g_subst_a || g_cb.b != (unsigned)g_subst_b) {
          c.violate("C12", "wrong_arguments@callback_with_int_arguments", "guest passed (%lld,%llu); the callback ran %d times and saw (%d,%u)", (long long)g_subst_a, (unsigned long long)g_subst_b, g_cb.runs, g_cb.a, g_cb.b);
        } else if (o != OK || !g_cb_returned || g_cb_result_seen != (int64_t)g_cb_ret || got != g_cb_ret) {
          c.violate("C12", "wrong_result_delivered_to_guest@callback_with_int_arguments", "callback returned %d, guest received %lld, application got %d (%s)", g_cb_ret, (long long)g_cb_result_seen, got, oname(o));
        }
      }
    }
    attempt([&] { cb.unregister(); });
    attempt([&] { sb.destroy_sandbox(); });
    run_end();
  }
};

int main(int argc, char** argv)
{
  libs().push_back({ { "f_ri", (void*)&G::ri }, { "f_calli", (void*)&G::calli } });
  install_crash_handlers("replays");
  mmu::install(crash_handler);
  AbiWorld w;
  return sim_main(w, argc, argv);
}
