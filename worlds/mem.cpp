// World `mem` — properties C02 (run-time half), C03, C04, C14.
// 1..4 sandbox objects of the sim backend (distinct regions), created /
// destroyed / re-created in plan order; a pool of typed tainted pointers on
// which derivation chains are run; a hostile guest that stores arbitrary bit
// patterns into pointer cells and returns / passes arbitrary patterns.
#include "../sim/world_common.hpp"
#include "../sim/mmu.hpp"
#include "../sim/aligned_new.hpp"
#include <memory>
#include <optional>
#include <variant>

using namespace sim;
using Sbx = rlbox::rlbox_sim_sandbox;
using Sandbox = rlbox::rlbox_sandbox<Sbx>;

#include "../sim/simnode.hpp"

template<class T>
using TP = rlbox::tainted<T*, Sbx>;
static_assert(sizeof(rlbox::tainted_volatile<SimNode, Sbx>) == sizeof(GNode));
static_assert(sizeof(rlbox::tainted_volatile<int*, Sbx>) == sizeof(Sbx::T_PointerType));
static_assert(sizeof(rlbox::tainted_volatile<long, Sbx>) == 4);

// ---- guest library (host functions with guest-ABI signatures) ----
extern "C" {
char* g_echo_ptr(char*);
char* g_ret_ptr(unsigned);
int g_lib_id();
char* g_call_cb(char* (*)(char*), unsigned);
}
struct GuestRec
{
  int lib, inst;
  const char* fn;
  uint64_t a0;
};
static std::vector<GuestRec> g_glog;
static void glog(int lib, const char* fn, uint64_t a0)
{
  Sbx* cur = Sbx::current();
  g_glog.push_back(GuestRec{ lib, cur ? cur->inst_id : -1, fn, a0 });
  bev("guest lib%d %s(%llu)", lib, fn, (unsigned long long)a0);
}
using GP = Sbx::T_PointerType; // guest pointer representation as the plug-in declares it (an integer type; void* in the pvoid build)
using PT = std::conditional_t<sizeof(GP) == 4, uint32_t, uint64_t>; // ... and its bits (uint32_t; uint64_t in the p64 and pvoid builds)
template<class P = GP>
static inline PT gp_bits(P p)
{
  if constexpr (std::is_pointer_v<P>)
    return (PT) reinterpret_cast<uintptr_t>(p);
  else
    return (PT)p;
}
template<class P = GP>
static inline P gp_make(PT v)
{
  if constexpr (std::is_pointer_v<P>)
    return reinterpret_cast<P>((uintptr_t)v);
  else
    return (P)v;
}
static PT g_cb_result_seen; // what the guest got back from the callback
template<int LIB>
struct G
{
  static GP echo_ptr(GP p)
  {
    glog(LIB, "echo_ptr", gp_bits(p));
    return p;
  }
  static GP ret_ptr(uint32_t bits)
  {
    glog(LIB, "ret_ptr", bits);
    return gp_make((PT)bits);
  }
  static int32_t lib_id()
  {
    glog(LIB, "lib_id", 0);
    return LIB;
  }
  static GP call_cb(GP idx, uint32_t bits)
  {
    glog(LIB, "call_cb", gp_bits(idx));
    GP r = Sbx::guest_call<GP, GP>((uint32_t)gp_bits(idx), gp_make((PT)bits));
    g_cb_result_seen = gp_bits(r);
    return r;
  }
};
template<int LIB>
static std::vector<Sym> make_lib()
{
  return { { "g_echo_ptr", (void*)&G<LIB>::echo_ptr },
           { "g_ret_ptr", (void*)&G<LIB>::ret_ptr },
           { "g_lib_id", (void*)&G<LIB>::lib_id },
           { "g_call_cb", (void*)&G<LIB>::call_cb } };
}

// ---- application callbacks ----
static Sandbox* g_cb_sandbox_seen;
static uintptr_t g_cb_arg_seen;
static int g_cb_calls;
static TP<char> g_cb_ret;
static TP<char> cb_ptr(Sandbox& sb, TP<char> p)
{
  g_cb_calls++;
  g_cb_sandbox_seen = &sb;
  g_cb_arg_seen = (uintptr_t)p.UNSAFE_unverified();
  return g_cb_ret;
}
static void cb_a(Sandbox&) {}
static void cb_b(Sandbox&) {}

enum Kind
{
  L_CREATE,
  L_DESTROY,
  L_MALLOC,
  L_FREE,
  L_FREE_DEAD,
  L_REGISTER,
  L_UNREGISTER,
  L_DROP_OWNER,
  L_INVOKE_ID,
  L_PROBE_REGISTRY,
  C_ACCEPT,
  C_ASSIGN_T,
  C_ASSIGN_V,
  P_ADD,
  P_SUB,
  P_ADDEQ,
  P_SUBEQ,
  P_INC,
  P_INDEX_ADDR,
  P_DEREF_ADDR,
  P_FIELD_ADDR,
  P_LOAD,
  P_LOAD_FIELD,
  P_LOAD_STRUCT,
  P_STORE,
  P_STORE_FIELD,
  P_STORE_STRUCT,
  P_CAST,
  P_OPAQUE,
  G_WRITE_CELL,
  P_APP_PTR,
  P_GRANT,
  I_ECHO,
  I_RETPTR,
  I_CALLBACK,
  V_ARITH,
  P_ARRAY_COPY,
  P_VOL_ASSIGN,
  P_FNPTR_CELL,
  P_TABLE_INDEX,
  P_COMPARE,
  P_NESTED,
  L_RESET,
  K_COUNT
};
static const char* kKind[] = { "create",       "destroy",      "malloc",     "free",        "free_dead",
                               "register",     "unregister",   "drop_owner", "invoke_id",   "probe_registry",
                               "accept",       "assign_raw_t", "assign_raw_v", "add",       "sub",
                               "addeq",        "subeq",        "incdec",     "index_addr",  "deref_addr",
                               "field_addr",   "load",         "load_field", "load_struct", "store",
                               "store_field",  "store_struct", "cast",       "opaque",      "guest_write_cell",
                               "app_ptr",      "grant",        "invoke_echo", "invoke_retptr", "invoke_callback",
                               "volatile_ptr_op", "array_of_pointers_copy", "volatile_to_volatile_assign", "function_pointer_cell",
                               "table_index", "pointer_compare", "nested_struct", "reset" };
static_assert(sizeof(kKind) / sizeof(kKind[0]) == K_COUNT);

enum TypeTag
{
  T_CHAR,
  T_SHORT,
  T_INT,
  T_LONG,
  T_LL,
  T_DOUBLE,
  T_PINT,
  T_NODE,
  T_COUNT
};
static const size_t kGuestSize[T_COUNT] = { 1, 2, 4, 4, 8, 8, sizeof(PT), sizeof(GNode) };
using HV = std::variant<TP<char>, TP<short>, TP<int>, TP<long>, TP<long long>, TP<double>, TP<int*>, TP<SimNode>>;
struct Handle
{
  HV v;
  int sbx;
};

using CbPtrOwner = rlbox::sandbox_callback<char* (*)(char*), Sbx>;
using CbVoidOwner = rlbox::sandbox_callback<void (*)(), Sbx>;

struct SbxState
{
  std::unique_ptr<Sandbox> sb;
  int state = 0; // 0 not created, 1 created, 2 failed create
  int lib = 0;
  int incarnation = 0;
  TP<long long> scratch; // 8-byte scratch cell (numeric operands)
  TP<int*> pcell; // pointer cell
  uintptr_t stale_pcell = 0; // address of pcell in a destroyed incarnation
  std::unique_ptr<CbPtrOwner> cbptr;
  std::unique_ptr<CbVoidOwner> own[2];
  int own_inc[2] = { -1, -1 }; // incarnation in which own[f] was registered (model)
  int reg_inc[2] = { -1, -1 }; // incarnation of the last successful registration of f
  bool reg_model[2] = { false, false }; // model: function f registered in current incarnation
  bool refused[2] = { false, false }; // an earlier registration of f was refused (table full)
  std::vector<std::unique_ptr<CbVoidOwner>> old_owners; // still-registered owners of earlier incarnations
  Sbx* impl() { return sb->get_sandbox_impl(); }
  uintptr_t base() { return (uintptr_t)impl()->mem.base; }
  size_t size() { return impl()->mem.size; }
};

struct MemWorld : World
{
  const char* name() const override { return "mem"; }
  const char* op_name(int k) const override { return kKind[k]; }
  int op_kind_count() const override { return K_COUNT; }

  // ------------------------------------------------------------ generation
  static int64_t interesting_n(Rng& r)
  {
    static const int64_t big[] = { 0,
                                   1,
                                   -1,
                                   2,
                                   7,
                                   8,
                                   15,
                                   16,
                                   255,
                                   256,
                                   1023,
                                   1024,
                                   4095,
                                   4096,
                                   65535,
                                   65536,
                                   (1LL << 31) - 1,
                                   1LL << 31,
                                   (1LL << 32) - 1,
                                   1LL << 32,
                                   (1LL << 32) + 16,
                                   1LL << 61,
                                   (1LL << 61) + 1,
                                   1LL << 62,
                                   INT64_MAX,
                                   INT64_MIN,
                                   -(1LL << 31),
                                   -(1LL << 32),
                                   -4096,
                                   -16 };
    unsigned c = (unsigned)r.below(10);
    if (c < 4)
      return big[r.below(sizeof(big) / sizeof(big[0]))];
    if (c < 7)
      return r.range(-40, 40);
    if (c < 9)
      return r.range(-70000, 70000);
    return (int64_t)r.next();
  }
  static int64_t interesting_bits(Rng& r, int64_t size)
  {
    unsigned c = (unsigned)r.below(12);
    switch (c) {
      case 0:
        return 0;
      case 1:
        return 1;
      case 2:
        return size - 1;
      case 3:
        return size;
      case 4:
        return size + 1;
      case 5:
        return 1LL << 31;
      case 6:
        return 0xFFFFFFFFLL;
      case 7:
        return 0xFFFFFFF0LL;
      case 8:
        return (int64_t)r.below((uint64_t)size);
      case 9:
        return (int64_t)(r.below((uint64_t)size) | ((r.below(16) + 1) << 20));
      default:
        return (int64_t)(r.next() & 0xFFFFFFFFULL);
    }
  }

  Plan generate(Rng& r, bool thorough) override
  {
    Plan p;
    int logsz = r.chance(1, 2) ? 12 : r.chance(2, 3) ? 16 : 20;
    int registry = r.chance(1, 2);
    int nsbx = (int)r.range(1, 4);
    int slots = r.chance(1, 3) ? 2 : 8;
    int mmu = r.chance(1, 3) && logsz <= 16;
    int reuse = r.chance(1, 3);
    int total_as_mask = (int)r.chance(1, 4) | ((int)r.chance(1, 3) << 1); // bit 1: the backend hands null addresses to the core's finder
    p.cfg = { logsz, registry, nsbx, slots, mmu, reuse, total_as_mask };
    int64_t size = 1LL << logsz;
    int n = (int)r.range(6, thorough ? 60 : 45);
    // op-mix (swarm): base weights then random muting
    std::vector<unsigned> w(K_COUNT, 4);
    w[L_CREATE] = 6;
    w[L_DESTROY] = 3;
    w[L_MALLOC] = 10;
    w[L_FREE] = 3;
    w[L_FREE_DEAD] = 1;
    w[L_REGISTER] = 3;
    w[L_UNREGISTER] = 2;
    w[L_DROP_OWNER] = 2;
    w[L_INVOKE_ID] = 3;
    w[L_PROBE_REGISTRY] = 3;
    w[L_RESET] = 2;
    w[C_ACCEPT] = 4;
    w[C_ASSIGN_T] = 3;
    w[C_ASSIGN_V] = 3;
    w[P_ADD] = 7;
    w[P_SUB] = 5;
    w[P_INDEX_ADDR] = 6;
    w[G_WRITE_CELL] = 6;
    w[V_ARITH] = mmu ? 14 : 2;
    bool lifecycle_focus = r.chance(1, 4);
    if (lifecycle_focus) {
      for (int k = 0; k < K_COUNT; k++)
        w[(size_t)k] = 1;
      w[L_CREATE] = 14;
      w[L_DESTROY] = 12;
      w[L_REGISTER] = 14;
      w[L_UNREGISTER] = 5;
      w[L_DROP_OWNER] = 10;
      w[L_INVOKE_ID] = 8;
      w[L_MALLOC] = 5;
      w[L_FREE_DEAD] = 3;
      w[L_PROBE_REGISTRY] = 6;
      w[L_RESET] = 6;
    }
    for (int k = 0; k < K_COUNT; k++)
      if (k != L_CREATE && k != L_MALLOC && r.chance(1, 5) && !(lifecycle_focus && w[(size_t)k] > 4))
        w[(size_t)k] = 0;
    // always start by creating some sandboxes
    for (int s = 0; s < nsbx; s++)
      if (r.chance(4, 5)) {
        Op o;
        o.kind = L_CREATE;
        o.a[0] = s;
        o.a[1] = (int64_t)r.below(2);
        p.ops.push_back(o);
      }
    for (int i = 0; i < n; i++) {
      Op o;
      o.kind = (int)r.weighted(w);
      o.a[0] = (int64_t)r.below(64); // handle / sandbox selector
      o.a[1] = (int64_t)r.below(64);
      o.a[2] = (int64_t)r.below(64);
      o.a[3] = 0;
      switch (o.kind) {
        case L_CREATE:
          o.a[1] = (int64_t)r.below(2); // lib
          o.a[2] = r.chance(1, 8) ? (int64_t)r.range(1, 2) : 0; // F6: fails at once / fails after reserving memory
          break;
        case L_MALLOC:
          o.a[1] = (int64_t)r.below(T_COUNT);
          o.a[2] = r.chance(1, 12) ? 0 : r.chance(2, 3) ? r.range(1, 8) : r.chance(1, 2) ? r.range(1, size / 2) : r.chance(1, 2) ? size : (int64_t)r.pick(std::vector<int64_t>{ 0xFFFFFFFFLL, 0x80000000LL, 0x40000001LL, 0x20000000LL, 0x10000002LL });
          o.a[3] = r.chance(1, 10) ? 1 : r.chance(1, 12) ? 2 : r.chance(1, 14) ? 3 : r.chance(1, 8) ? 4 : 0; // F3 / F4 / F4 wild / block at the top of the region
          break;
        case C_ACCEPT:
        case C_ASSIGN_T:
        case C_ASSIGN_V:
          o.a[1] = (int64_t)r.below(16); // address class
          o.a[3] = (int64_t)r.below((uint64_t)size);
          o.a[4] = (int64_t)r.below(3); // pointee type of the raw pointer: char / int / double
          o.a[5] = (int64_t)r.below(16); // bit0: destination already holds a pointer; bit1: destination cell lives in another sandbox; bits 2+3 both set: pointer to a derived class given for a second-base pointer
          break;
        case P_ADD:
        case P_SUB:
        case P_ADDEQ:
        case P_SUBEQ:
        case P_INDEX_ADDR:
          o.a[1] = (int64_t)r.below(5); // operand type
          o.a[2] = (int64_t)r.below(3); // wrapper
          o.a[3] = interesting_n(r);
          o.a[4] = (int64_t)r.below(2); // add: integer operand on the left
          break;
        case P_INC:
          o.a[1] = (int64_t)r.below(4);
          break;
        case P_FIELD_ADDR:
          o.a[1] = r.chance(1, 4) ? (int64_t)r.range(9, 10) : (int64_t)r.below(11);
          o.a[3] = r.chance(1, 2) ? (int64_t)r.below(8) : interesting_n(r); // index into a fixed array field
          o.a[4] = (int64_t)r.below(5);
          o.a[5] = (int64_t)r.below(3);
          break;
        case P_LOAD_FIELD:
        case P_LOAD_STRUCT:
        case P_STORE_FIELD:
          o.a[1] = (int64_t)r.below(7);
          break;
        case P_CAST:
          o.a[1] = (int64_t)r.below(T_COUNT);
          o.a[2] = (int64_t)r.below(4);
          break;
        case G_WRITE_CELL:
        case I_RETPTR:
        case I_CALLBACK:
          o.a[1] = interesting_bits(r, size);
          break;
        case P_GRANT:
          o.a[1] = r.range(1, 64);
          o.a[2] = r.chance(1, 3) ? (int64_t)r.range(1, 3) : 0; // refused (bit 1: the backend hands the caller's pointer back with success=false)
          break;
        case P_TABLE_INDEX: {
          static const int64_t idx[] = { -1, -2, -3, -4, -127, -128, -129, 127, 128, 129, 252, 253, 254, 255, 256, 257, 298, 299, 300, 301, 511,
                                         32767, 32768, -32768, 65532, 65533, 65534, 65535, 65536, 65537, 65997, 65999, 66000, 66001, 131071,
                                         (1LL << 31) - 1, 1LL << 31, (1LL << 32) - 3, (1LL << 32) + 5, -(1LL << 32) + 2 };
          o.a[1] = (int64_t)r.below(6); // bit0: 66000-byte table (needs room), >>1: placement (first usable bytes / last bytes / middle)
          o.a[2] = (int64_t)r.below(10); // index type
          o.a[3] = r.chance(1, 4) ? (int64_t)r.below(300) : idx[r.below(sizeof(idx) / sizeof(idx[0]))];
          o.a[4] = (int64_t)r.below(3); // plain / tainted / in sandbox memory
          o.a[5] = (int64_t)r.below(24); // (trap-MMU runs, index in sandbox memory) rewritten at the k-th access with one of 6 hostile values
          break;
        }
        case P_NESTED:
          o.a[1] = interesting_bits(r, size); // what the guest put into in.p
          o.a[2] = r.chance(1, 4) ? 0 : interesting_bits(r, size); // ... and into node
          o.a[3] = (int64_t)r.below(6); // which access
          o.a[4] = (int64_t)(r.next() >> 1);
          break;
        case P_COMPARE:
          o.a[1] = (int64_t)r.below(64); // second sandbox
          o.a[2] = r.chance(1, 6) ? 0 : (int64_t)r.below((uint64_t)size); // representation in the first cell
          o.a[3] = r.chance(1, 2) ? -1 : r.chance(1, 5) ? 0 : (int64_t)r.below((uint64_t)size); // second cell (-1: the same bits)
          o.a[4] = (int64_t)r.below(10); // form
          break;
        case V_ARITH:
          o.a[1] = (int64_t)r.below(5); // which operation
          o.a[2] = r.chance(1, 2) ? r.range(-3, 3) : interesting_n(r);
          o.a[3] = (int64_t)(r.chance(1, 8) ? 0 : r.range(1, 3)); // access index at which the guest strikes (0 = never)
          o.a[4] = (int64_t)r.below(3); // mutation: null / retarget / garbage
          o.a[5] = (int64_t)r.below((uint64_t)size);
          break;
        default:
          break;
      }
      p.ops.push_back(o);
    }
    return p;
  }

  // ------------------------------------------------------------ execution
  std::vector<SbxState> S;
  std::vector<Handle> H;
  Ctx* C = nullptr;
  bool registry = false;

  static uintptr_t haddr(const Handle& h)
  {
    return std::visit([](auto& t) { return (uintptr_t)t.UNSAFE_unverified(); }, h.v);
  }
  static int htype(const Handle& h) { return (int)h.v.index(); }

  // C03 invariant on a produced pointer
  bool check_ptr(int s, uintptr_t addr, const char* opn)
  {
    if (addr == 0)
      return true;
    SbxState& st = S[(size_t)s];
    if (st.state == 1 && addr >= st.base() && addr - st.base() < st.size())
      return true;
    const LiveRegion* lr = region_of((void*)addr);
    long long rel = st.state == 1 ? (long long)(addr - st.base()) : 0;
    bool near = st.state == 1 && rel > -(1LL << 33) && rel < (1LL << 33);
    C->violate("C03",
               std::string("escaped_pointer@") + opn,
               "pointer derived in sandbox #%d is non-null and outside its region: %s (%s %lld)",
               s,
               lr ? "inside ANOTHER live sandbox" : "outside every sandbox",
               near ? "offset from own base" : "absolute address",
               near ? rel : (long long)addr);
    return false;
  }
  template<class T>
  void push(int s, TP<T> t, const char* opn)
  {
    uintptr_t a = (uintptr_t)t.UNSAFE_unverified();
    if (S[(size_t)s].state == 1)
      C->ev("-> %s", a == 0 ? "null" : (a >= S[(size_t)s].base() && a - S[(size_t)s].base() < S[(size_t)s].size()) ? "in" : "OUT");
    if (!check_ptr(s, a, opn))
      return;
    if (H.size() < 48)
      H.push_back(Handle{ HV(t), s });
    else
      H[(size_t)(C->st.steps % 48)] = Handle{ HV(t), s };
  }
  Handle* pick(int64_t sel, int type = -1)
  {
    std::vector<size_t> c;
    for (size_t i = 0; i < H.size(); i++)
      if (type < 0 || htype(H[i]) == type)
        c.push_back(i);
    if (c.empty())
      return nullptr;
    return &H[c[(uint64_t)sel % c.size()]];
  }
  bool fits(const Handle& h, size_t bytes)
  {
    SbxState& st = S[(size_t)h.sbx];
    uintptr_t a = haddr(h);
    return st.state == 1 && a != 0 && a >= st.base() && a - st.base() + bytes <= st.size();
  }
  int pick_sbx(int64_t sel) { return (int)((uint64_t)sel % S.size()); }

  // F2 on an integer operand that lives in sandbox memory: the guest overwrites it at RLBox's k-th access to the region
  struct OperandFault
  {
    uint64_t k = 0; // 0: none
    int64_t value = 0;
    uint8_t* gcell = nullptr;
    size_t width = 0;
    bool fired = false;
  };
  OperandFault operand_fault;
  static void operand_hook(uint64_t k, uint32_t, bool, void* ud)
  {
    auto* f = (OperandFault*)ud;
    if (!f->fired && k == f->k) {
      memcpy(f->gcell, &f->value, f->width); // little endian: the low bytes of the value
      f->fired = true;
    }
  }
  template<class N, class F>
  void with_wrap(int s, int wrap, int64_t v, F&& f)
  {
    N nv = (N)v;
    if (wrap == 0) {
      f(nv);
    } else if (wrap == 1) {
      rlbox::tainted<N, Sbx> t = nv;
      f(t);
    } else {
      // operand living in sandbox memory
      auto cell = rlbox::sandbox_reinterpret_cast<N*>(S[(size_t)s].scratch);
      *cell = nv; // may abort when not representable in the guest type
      C->probe("operand_in_sandbox_memory");
      if (Sbx::cfg.mmu && operand_fault.k != 0) {
        SbxState& st = S[(size_t)s];
        operand_fault.gcell = st.impl()->gptr((uint32_t)((uintptr_t)st.scratch.UNSAFE_unverified() - st.base()));
        operand_fault.width = sizeof(rlbox::detail::convert_to_sandbox_equivalent_t<N, Sbx>);
        operand_fault.fired = false;
        mmu::arm(st.impl()->mem.base, st.size(), operand_hook, &operand_fault);
        struct Disarm
        {
          MemWorld* w;
          ~Disarm()
          {
            w->C->st.steps += mmu::g.count;
            mmu::disarm();
            if (w->operand_fault.fired)
              w->C->fired("F2_integer_operand_rewritten_between_accesses");
            w->operand_fault.k = 0;
          }
        } disarm{ this };
        f(*cell);
      } else
        f(*cell);
    }
  }
  template<class NV>
  static int64_t nv_value(const NV& nv)
  {
    if constexpr (std::is_integral_v<NV>)
      return (int64_t)nv;
    else
      return (int64_t)nv.UNSAFE_unverified();
  }
  template<class F>
  void with_n(int s, int nt, int wrap, int64_t v, F&& f)
  {
    switch (nt) {
      case 0:
        with_wrap<int>(s, wrap, v, f);
        break;
      case 1:
        with_wrap<unsigned>(s, wrap, v, f);
        break;
      case 2:
        with_wrap<long>(s, wrap, v, f);
        break;
      case 3:
        with_wrap<unsigned long>(s, wrap, v, f);
        break;
      default:
        with_wrap<short>(s, wrap, v, f);
        break;
    }
  }

  void drop_handles_of(int s)
  {
    std::vector<Handle> keep;
    for (auto& h : H)
      if (h.sbx != s)
        keep.push_back(h);
    H.swap(keep);
  }

  // address classes for C02
  uintptr_t addr_class(int s, int cls, int s2sel, int64_t off, bool& defined)
  {
    static int heapobj[4];
    int stackobj = 0;
    defined = true;
    SbxState& st = S[(size_t)s];
    auto other = [&]() -> SbxState* {
      for (size_t k = 1; k <= S.size(); k++) {
        SbxState& o = S[((size_t)s + k + (size_t)s2sel) % S.size()];
        if (&o != &st && o.state == 1)
          return &o;
      }
      return nullptr;
    };
    bool have = st.state == 1;
    switch (cls) {
      case 0:
        return 0;
      case 1:
        if (!have)
          break;
        return st.base();
      case 2:
        if (!have)
          break;
        return st.base() + st.size() - 1;
      case 3:
        if (!have)
          break;
        return st.base() + ((uint64_t)off % st.size());
      case 4:
      case 5:
      case 6: {
        SbxState* o = other();
        if (!o)
          break;
        C->probe("address_in_other_live_sandbox");
        return cls == 4 ? o->base() : cls == 5 ? o->base() + o->size() - 1 : o->base() + ((uint64_t)off % o->size());
      }
      case 7:
        if (g_graveyard.empty())
          break;
        C->probe("address_in_destroyed_region");
        return (uintptr_t)g_graveyard.back().base + ((uint64_t)off % g_graveyard.back().size);
      case 8:
        if (!have)
          break;
        return st.base() - 1;
      case 9:
        if (!have)
          break;
        return st.base() + st.size();
      case 10:
        return (uintptr_t)&heapobj[0];
      case 11:
        return (uintptr_t)&stackobj;
      case 12:
        return (uintptr_t)&cb_a;
      case 13:
        if (!have)
          break;
        C->probe("address_4GiB_alias");
        return st.base() + (1ULL << 32) + ((uint64_t)off % st.size());
    }
    defined = false;
    return 0;
  }

  void do_create(const Op& op)
  {
    int s = pick_sbx(op.a[0]);
    SbxState& st = S[(size_t)s];
    int lib = (int)(op.a[1] & 1);
    bool inject = op.a[2] != 0;
    if (inject)
      g_fault.create_fail = op.a[2] == 2 ? 2 : 1;
    bool ret = false;
    Outcome o = attempt([&] { ret = st.sb->create_sandbox(lib); });
    g_fault.create_fail = 0;
    C->ev("create #%d -> %s ret=%d (state was %d)", s, oname(o), (int)ret, st.state);
    if (st.state == 1) {
      C->probe("create_on_created");
      if (o != ABORT)
        C->violate("C14", "create_on_created_not_refused@create", "sandbox #%d", s);
      return;
    }
    if (st.state == 2) {
      // statement is silent about a second create after a failed one
      C->probe("create_after_failed_create");
      if (o == OK && ret) {
        st.state = 1;
      } else
        return;
    } else {
      if (o != OK) {
        C->violate("C14", "create_on_not_created_aborts@create", "sandbox #%d: %s", s, g_last_abort_msg.c_str());
        return;
      }
      if (inject) {
        if (ret)
          C->violate("C14", "failed_backend_create_reported_success@create", "sandbox #%d", s);
        st.state = 2;
        if (op.a[2] == 2 && st.impl()->rem_size)
          st.stale_pcell = st.impl()->rem_base + 64; // an address in the memory the failed create had reserved
        return;
      }
      if (!ret) {
        C->violate("C14", "create_returned_false_without_fault@create", "sandbox #%d", s);
        return;
      }
      st.state = 1;
    }
    st.lib = lib;
    st.incarnation++;
    st.reg_model[0] = st.reg_model[1] = false;
    st.refused[0] = st.refused[1] = false;
    if (st.incarnation > 1)
      C->probe("sandbox_recreated");
    // scratch cells
    Outcome o2 = attempt([&] {
      st.scratch = st.sb->malloc_in_sandbox<long long>();
      st.pcell = st.sb->malloc_in_sandbox<int*>();
      g_cb_ret = nullptr;
    });
    if (o2 != OK || !st.scratch || !st.pcell) {
      C->violate("C14", "created_sandbox_does_not_allocate@create", "sandbox #%d %s", s, g_last_abort_msg.c_str());
      return;
    }
    check_ptr(s, (uintptr_t)st.scratch.UNSAFE_unverified(), "malloc");
    // a second pointer cell and a node enter the handle pool so that cell-based operations always have material
    attempt([&] {
      push<int*>(s, st.sb->malloc_in_sandbox<int*>(), "malloc");
      push<SimNode>(s, st.sb->malloc_in_sandbox<SimNode>(), "malloc");
    });
    // callback used by invoke_callback (an owner that outlived the previous incarnation is leaked,
    // not destroyed: what its destructor may do to the new incarnation is not what is examined here)
    if (st.cbptr)
      (void)st.cbptr.release();
    Outcome o3 = attempt([&] { st.cbptr = std::make_unique<CbPtrOwner>(st.sb->register_callback(cb_ptr)); });
    if (o3 != OK)
      C->violate("C14", "stale_registration_visible_after_recreate@create", "cb_ptr cannot be registered in the new incarnation of #%d: %s", s, g_last_abort_msg.c_str());
  }

  void do_destroy(const Op& op)
  {
    int s = pick_sbx(op.a[0]);
    SbxState& st = S[(size_t)s];
    bool drop_first = (op.a[1] & 1) != 0;
    if (st.state == 1 && drop_first) {
      st.cbptr.reset();
    } else if (st.state == 1 && st.cbptr) {
      C->probe("destroy_with_live_owner");
    }
    uintptr_t pc = st.state == 1 ? (uintptr_t)st.pcell.UNSAFE_unverified() : 0;
    Outcome o = attempt([&] { st.sb->destroy_sandbox(); });
    C->ev("destroy #%d -> %s (state was %d)", s, oname(o), st.state);
    if (st.state != 1) {
      C->probe("destroy_on_not_created");
      if (o != ABORT)
        C->violate("C14", "destroy_on_not_created_not_refused@destroy", "sandbox #%d state %d", s, st.state);
      return;
    }
    if (o != OK) {
      C->violate("C14", "destroy_on_created_aborts@destroy", "sandbox #%d: %s", s, g_last_abort_msg.c_str());
      return;
    }
    st.state = 0;
    st.stale_pcell = pc;
    drop_handles_of(s);
    C->fired("F12_destroy_sandbox");
    // the owner of cb_ptr may outlive the sandbox: destroying it later must be harmless
    if (st.cbptr && (op.a[2] & 1)) {
      Outcome od = attempt([&] { st.cbptr.reset(); });
      C->probe("owner_destroyed_after_destroy_sandbox");
      if (od != OK)
        C->violate("C14", "unregistration_outside_window_not_ignored@destroy", "owner destruction after destroy_sandbox aborted");
    }
  }

  template<class T>
  void do_malloc_t(int s, const Op& op)
  {
    SbxState& st = S[(size_t)s];
    uint32_t count = (uint32_t)op.a[2];
    if (count == 0 && st.state == 1)
      count = 1; // (inside the window a request for nothing aborts; outside it the answer is null whatever is asked for)
    if (count == 0)
      C->probe("zero_elements_requested_outside_window");
    uint64_t before = st.impl()->n_mallocs;
    if (op.a[3] == 1)
      g_fault.malloc_fail = 1;
    if (op.a[3] == 2)
      g_fault.malloc_straddle = 1;
    if (op.a[3] == 3 && st.state == 1 && (uint64_t)count * sizeof(T) <= 2048)
      g_fault.malloc_wild = 1; // the block lies wholly in the application page behind the region
    if (op.a[3] == 4)
      g_fault.malloc_at_end = 1; // a legitimate answer: the block's last byte is the region's last byte
    TP<T> p = nullptr;
    Outcome o = attempt([&] { p = st.sb->template malloc_in_sandbox<T>(count); });
    g_fault.clear();
    if (st.state == 1 && st.impl()->last_malloc_at_end && (o != OK || p == nullptr))
      C->violate("C14", "allocation_not_served_inside_window@malloc", "the allocator of sandbox #%d answered with the block that ends on the last byte of its memory (%u elements): %s: %s", s, count, oname(o), g_last_abort_msg.c_str());
    if (st.state == 1)
      st.impl()->wild_rep_once = 0;
    uint64_t calls = st.impl()->n_mallocs - before;
    C->ev("malloc #%d type %d count %u -> %s", s, (int)op.a[1], count, oname(o));
    if (st.state != 1) {
      C->probe("malloc_outside_window");
      if (o != OK)
        C->violate("C14", "allocation_outside_window_does_not_return_null@malloc", "sandbox #%d state %d, %u elements: %s: %s", s, st.state, count, oname(o), g_last_abort_msg.c_str());
      else if (p != nullptr || calls != 0)
        C->violate("C14",
                   "allocation_served_outside_window@malloc",
                   "sandbox #%d state %d outcome %s non-null=%d backend calls=%llu",
                   s,
                   st.state,
                   oname(o),
                   (int)(p != nullptr),
                   (unsigned long long)calls);
      return;
    }
    if (o != OK && op.a[3] == 1 && calls != 0)
      C->violate("C04", "null_not_preserved@malloc", "the allocator of sandbox #%d answered 0 (out of memory): the application must get a null pointer, got %s: %s", s, oname(o), g_last_abort_msg.c_str());
    if (o == OK) {
      if (op.a[3] == 1 && p != nullptr)
        C->violate("C04", "null_not_preserved@malloc", "backend returned representation 0, application got a non-null pointer");
      else if (calls == 0)
        C->violate("C14", "allocation_not_served_inside_window@malloc", "sandbox #%d is created, yet the request never reached the backend allocator", s);
      else if (p != nullptr && op.a[3] == 0 && !std::is_same_v<T, long> && !std::is_class_v<T> && !std::is_pointer_v<T>) {
        // an array of `count` elements was handed out: all of it lies in the sandbox (types of equal size in both ABIs)
        uintptr_t a = (uintptr_t)p.UNSAFE_unverified();
        unsigned __int128 end = (unsigned __int128)(a - st.base()) + (unsigned __int128)count * sizeof(T);
        if (end > st.size())
          C->violate("C03", "allocation_extends_beyond_sandbox@malloc", "%u elements of %zu bytes at offset %llu in a region of %zu bytes", count, sizeof(T), (unsigned long long)(a - st.base()), st.size());
      }
      push<T>(s, p, "malloc");
    }
  }
  void do_malloc(const Op& op)
  {
    int s = pick_sbx(op.a[0]);
    switch ((int)((uint64_t)op.a[1] % T_COUNT)) {
      case T_CHAR:
        do_malloc_t<char>(s, op);
        break;
      case T_SHORT:
        do_malloc_t<short>(s, op);
        break;
      case T_INT:
        do_malloc_t<int>(s, op);
        break;
      case T_LONG:
        do_malloc_t<long>(s, op);
        break;
      case T_LL:
        do_malloc_t<long long>(s, op);
        break;
      case T_DOUBLE:
        do_malloc_t<double>(s, op);
        break;
      case T_PINT:
        do_malloc_t<int*>(s, op);
        break;
      default:
        do_malloc_t<SimNode>(s, op);
        break;
    }
  }

  void do_free(const Op& op)
  {
    Handle* h = pick(op.a[0]);
    if (!h)
      return;
    int s = h->sbx;
    SbxState& st = S[(size_t)s];
    if (st.state != 1)
      return;
    uintptr_t a = haddr(*h);
    uint64_t before = st.impl()->n_frees;
    int form = (int)((uint64_t)op.a[1] % 3);
    Outcome o = attempt([&] {
      std::visit(
        [&](auto& t) {
          if (form == 0)
            st.sb->free_in_sandbox(t);
          else if (form == 1)
            st.sb->free_in_sandbox(t.to_opaque());
          else {
            // through a pointer cell (tainted_volatile form) — only for int*
            using TT = std::remove_reference_t<decltype(t)>;
            if constexpr (std::is_same_v<TT, TP<int>>) {
              *st.pcell = t;
              st.sb->free_in_sandbox(*st.pcell);
            } else {
              st.sb->free_in_sandbox(t);
            }
          }
        },
        h->v);
    });
    C->ev("free form %d -> %s", form, oname(o));
    if (o != OK) {
      C->violate("C04", "free_aborts@free", "%s", g_last_abort_msg.c_str());
      return;
    }
    if (st.impl()->n_frees != before + 1) {
      C->violate("C14", "free_inside_window_not_delivered@free", "backend saw %llu frees", (unsigned long long)(st.impl()->n_frees - before));
      return;
    }
    uint32_t want = a == 0 ? 0 : (uint32_t)(a - st.base());
    if (st.impl()->last_free_rep != want)
      C->violate("C04", "wrong_representation@free", "backend free() received %u, expected %u", st.impl()->last_free_rep, want);
    // remove the handle (and aliases are left; they are just addresses)
    *h = H.back();
    H.pop_back();
  }

  void do_free_dead(const Op& op)
  {
    int s = pick_sbx(op.a[0]);
    SbxState& st = S[(size_t)s];
    if (st.state == 1)
      return;
    uint64_t before = st.impl()->n_frees;
    TP<int> t = nullptr;
    static PT lone_cell[2]; // stands for a (null) pointer held in memory the application still has a reference into
    Outcome o = attempt([&] {
      if (op.a[1] & 1) {
        lone_cell[0] = 0;
        st.sb->free_in_sandbox(*reinterpret_cast<rlbox::tainted_volatile<int*, Sbx>*>(&lone_cell[0])); // the overload for values that live in sandbox memory
      } else if (op.a[1] & 2)
        st.sb->free_in_sandbox(t.to_opaque());
      else
        st.sb->free_in_sandbox(t);
    });
    C->probe("free_outside_window");
    if (o != OK || st.impl()->n_frees != before)
      C->violate("C14", "free_outside_window_not_ignored@free_dead", "sandbox #%d state %d outcome %s", s, st.state, oname(o));
  }

  void do_register(const Op& op)
  {
    int s = pick_sbx(op.a[0]);
    int f = (int)(op.a[1] & 1);
    SbxState& st = S[(size_t)s];
    std::unique_ptr<CbVoidOwner> fresh;
    Outcome o = attempt([&] { fresh = std::make_unique<CbVoidOwner>(st.sb->register_callback(f ? cb_b : cb_a)); });
    C->ev("register #%d f%d -> %s", s, f, oname(o));
    if (st.state != 1) {
      C->probe("register_outside_window");
      if (o != ABORT)
        C->violate("C14", "registration_served_outside_window@register", "sandbox #%d state %d", s, st.state);
      return;
    }
    bool model_registered = st.reg_model[f];
    if (model_registered) {
      if (o != ABORT)
        C->violate("C13", "duplicate_registration_accepted@register", "sandbox #%d f%d", s, f);
      return;
    }
    if (o == ABORT) {
      // slot table may legitimately be full (cb_ptr + two functions > slots)
      if (st.impl()->callbacks_in_table() >= Sbx::cfg.slots) {
        st.refused[f] = true;
        C->probe("registration_refused_table_full");
        return;
      }
      bool stale = st.reg_inc[f] >= 0 && st.reg_inc[f] != st.incarnation;
      C->violate(stale ? "C14" : st.refused[f] ? "C13" : "C14",
                 stale ? "stale_registration_visible_after_recreate@register"
                       : st.refused[f] ? "refused_registration_blocks_later_registration@register" : "registration_refused_inside_window@register",
                 "sandbox #%d f%d incarnation %d (registered earlier in incarnation %d): %s",
                 s,
                 f,
                 st.incarnation,
                 st.reg_inc[f],
                 g_last_abort_msg.c_str());
      return;
    }
    // overwriting our previous owner object for f (it is inert or belongs to an old incarnation)
    if (st.own[f] && !st.own[f]->is_unregistered()) {
      C->probe("owner_from_old_incarnation_replaced");
      st.old_owners.push_back(std::move(st.own[f]));
    }
    st.own[f] = std::move(fresh);
    st.own_inc[f] = st.incarnation;
    st.reg_inc[f] = st.incarnation;
    st.reg_model[f] = true;
    st.refused[f] = false;
  }

  void do_unregister(const Op& op, bool destroy_owner)
  {
    int s = pick_sbx(op.a[0]);
    int f = (int)(op.a[1] & 1);
    SbxState& st = S[(size_t)s];
    if ((op.a[2] & 1) && !st.old_owners.empty() && st.state == 1) {
      // an owner that outlived a destroy/create cycle is released while the new incarnation lives:
      // harmless, and nothing of the new incarnation changes
      uint64_t ub = st.impl()->n_unregs;
      int cbs = st.impl()->callbacks_in_table();
      Outcome oo = attempt([&] {
        if (destroy_owner)
          st.old_owners.pop_back();
        else
          st.old_owners.back()->unregister();
      });
      if (!destroy_owner && oo == OK)
        st.old_owners.pop_back();
      C->probe("old_incarnation_owner_released_with_new_incarnation_alive");
      if (oo != OK || st.impl()->n_unregs != ub || st.impl()->callbacks_in_table() != cbs)
        C->violate("C14",
                   "old_incarnation_owner_affects_new_incarnation@unregister",
                   "outcome %s, backend unregistrations %llu, table entries %d -> %d",
                   oname(oo),
                   (unsigned long long)(st.impl()->n_unregs - ub),
                   cbs,
                   st.impl()->callbacks_in_table());
      return;
    }
    if (!st.own[f])
      return;
    bool owner_current = st.own_inc[f] == st.incarnation && st.state == 1;
    if (!owner_current && st.state == 1 && !st.own[f]->is_unregistered()) {
      st.old_owners.push_back(std::move(st.own[f]));
      st.own_inc[f] = -1;
      return;
    }
    uint64_t before = st.impl()->n_unregs;
    Outcome o = attempt([&] {
      if (destroy_owner)
        st.own[f].reset();
      else
        st.own[f]->unregister();
    });
    C->ev("unregister #%d f%d destroy=%d -> %s", s, f, (int)destroy_owner, oname(o));
    if (st.state != 1) {
      C->probe("unregister_outside_window");
      if (o != OK || st.impl()->n_unregs != before)
        C->violate("C14", "unregistration_outside_window_not_ignored@unregister", "sandbox #%d state %d outcome %s", s, st.state, oname(o));
      if (destroy_owner)
        st.own_inc[f] = -1;
      return;
    }
    if (o != OK) {
      C->violate("C13", "unregister_aborts@unregister", "sandbox #%d f%d: %s", s, f, g_last_abort_msg.c_str());
      return;
    }
    if (owner_current)
      st.reg_model[f] = false;
    if (destroy_owner)
      st.own_inc[f] = -1;
  }

  void do_invoke_id(const Op& op)
  {
    int s = pick_sbx(op.a[0]);
    SbxState& st = S[(size_t)s];
    if (st.state != 1)
      return;
    size_t before = g_glog.size();
    int got = -1;
    Outcome o = attempt([&] { got = st.sb->invoke_sandbox_function(g_lib_id).UNSAFE_unverified(); });
    C->ev("invoke g_lib_id #%d -> %s %d", s, oname(o), got);
    if (o != OK) {
      C->violate("C11", "invoke_aborts@invoke_id", "%s", g_last_abort_msg.c_str());
      return;
    }
    bool ok = g_glog.size() == before + 1 && g_glog.back().lib == st.lib && g_glog.back().inst == st.impl()->inst_id && got == st.lib;
    if (!ok) {
      bool stale = st.incarnation > 1;
      C->violate(stale ? "C14" : "C11",
                 stale ? "stale_symbol_after_recreate@invoke_id" : "wrong_library@invoke_id",
                 "sandbox #%d incarnation %d bound to lib %d, function of lib %d ran (%zu guest records)",
                 s,
                 st.incarnation,
                 st.lib,
                 g_glog.size() > before ? g_glog.back().lib : -1,
                 g_glog.size() - before);
    }
  }

  void do_probe_registry(const Op& op)
  {
    if (!registry)
      return;
    int s = pick_sbx(op.a[0]);
    SbxState& st = S[(size_t)s];
    if (st.state == 1 && (uint64_t)op.a[1] % 3 == 0) {
      // any byte of the region as the example of a context-free translation: first, last, or anywhere
      unsigned cls = (unsigned)((uint64_t)op.a[2] % 3);
      uint64_t boff = cls == 0 ? 0 : cls == 1 ? st.size() - 1 : (uint64_t)op.a[3] & (st.size() - 1);
      char* addr = reinterpret_cast<char*>(st.base() + boff);
      uint64_t before = Sbx::n_registry;
      Sbx::last_registry_inst = -2;
      PT rep = 0;
      Outcome o = attempt([&] { rep = gp_bits(Sandbox::get_sandboxed_pointer_no_ctx<char*>(addr, addr)); });
      C->ev("probe registry #%d byte %llu -> %s inst %d", s, (unsigned long long)boff, oname(o), Sbx::last_registry_inst);
      C->probe(cls == 1 ? "registry_asked_about_last_byte_of_region" : "registry_asked_about_arbitrary_byte_of_region");
      if (o != OK || (Sbx::n_registry != before && Sbx::last_registry_inst != st.impl()->inst_id))
        C->violate("C14", "live_sandbox_not_found_from_its_address@probe_registry", "byte %llu of the region of sandbox #%d as example: %s, registry answered inst %d, expected %d: %s", (unsigned long long)boff, s, oname(o),
                   Sbx::last_registry_inst, st.impl()->inst_id, o != OK ? g_last_abort_msg.c_str() : "");
      else if ((uint64_t)rep != boff)
        C->violate("C04", "wrong_representation@probe_registry", "byte %llu of the region translates to %llu", (unsigned long long)boff, (unsigned long long)rep);
      return;
    }
    if (st.state == 1) {
      // make the cell non-zero through the guest view, then load through it
      PT off = (PT)((uintptr_t)st.scratch.UNSAFE_unverified() - st.base());
      uint32_t celloff = (uint32_t)((uintptr_t)st.pcell.UNSAFE_unverified() - st.base());
      memcpy(st.impl()->gptr(celloff), &off, sizeof off);
      uint64_t before = Sbx::n_registry;
      Sbx::last_registry_inst = -2;
      TP<int> q = nullptr;
      Outcome o = attempt([&] { q = *st.pcell; });
      C->ev("probe registry #%d -> %s inst %d", s, oname(o), Sbx::last_registry_inst);
      if (o != OK || Sbx::n_registry == before)
        return;
      C->probe("registry_consulted_for_live_sandbox");
      if (Sbx::last_registry_inst != st.impl()->inst_id)
        C->violate("C14",
                   "live_sandbox_not_found_from_its_address@probe_registry",
                   "example address inside sandbox #%d: registry answered inst %d, expected %d",
                   s,
                   Sbx::last_registry_inst,
                   st.impl()->inst_id);
      else
        check_ptr(s, (uintptr_t)q.UNSAFE_unverified(), "probe_registry");
    } else if (st.stale_pcell) {
      // address inside the former region of a destroyed incarnation / of a create that failed after reserving
      // memory: the registry must answer with whichever LIVE sandbox owns that address now (regions may be
      // reused), or with none - never with an object that is not created
      const LiveRegion* owner = region_of((void*)st.stale_pcell);
      uint64_t before = Sbx::n_registry;
      Sbx::last_registry_inst = -2;
      auto stale = reinterpret_cast<rlbox::tainted_volatile<int*, Sbx>*>(st.stale_pcell);
      // make sure the cell is non-zero so that a translation (and hence a lookup) happens
      PT one = 8;
      uint8_t* gview = owner ? ((Sbx*)owner->inst)->mem.gbase + (st.stale_pcell - owner->base) : (uint8_t*)st.stale_pcell;
      memcpy(gview, &one, sizeof one);
      TP<int> q = nullptr;
      Outcome o = attempt([&] { q = *stale; });
      (void)o;
      if (Sbx::n_registry == before)
        return;
      C->probe(st.state == 2 ? "registry_consulted_for_failed_create" : "registry_consulted_for_destroyed_sandbox");
      if (owner)
        C->probe("former_region_reused_by_live_sandbox");
      int want = owner ? owner->id : -1;
      if (Sbx::last_registry_inst != want)
        C->violate("C14",
                   st.state == 2 ? "failed_create_found_in_registry@probe_registry" : "destroyed_sandbox_still_found@probe_registry",
                   "example address in the former region of #%d: registry answered inst %d, the live owner of that address is %d",
                   s,
                   Sbx::last_registry_inst,
                   want);
    }
  }

  template<class T>
  void do_c02_t(const Op& op)
  {
    constexpr int NCLS = 16;
    int s = pick_sbx(op.a[0]);
    SbxState& st = S[(size_t)s];
    bool defined;
    int cls = (int)((uint64_t)op.a[1] % NCLS);
    uintptr_t addr;
    if (cls == 14 || cls == 15) {
      // a few bytes below the first byte / below the end: the pointee of a multi-byte type may straddle the edge
      if (st.state != 1)
        return;
      unsigned k = 1 + (unsigned)((uint64_t)op.a[3] % 7);
      addr = cls == 14 ? st.base() - k : st.base() + st.size() - k;
      C->probe("address_within_a_pointee_of_the_sandbox_edge");
    } else {
      addr = addr_class(s, cls, (int)op.a[2], op.a[3], defined);
      if (!defined)
        return;
    }
    bool inside = st.state == 1 && addr >= st.base() && addr - st.base() < st.size();
    T* raw = reinterpret_cast<T*>(addr);
    const char* opn = kKind[op.kind];
    auto refusal = [&](Outcome o) {
      C->violate("C02",
                 std::string(inside ? "in_sandbox_address_refused@" : "foreign_address_accepted@") + opn,
                 "address class %d, pointee of %zu bytes, outcome %s",
                 cls,
                 sizeof(T),
                 oname(o));
    };
    if (op.kind == C_ACCEPT) {
      TP<T> t = nullptr;
      Outcome o = attempt([&] {
        if (op.a[5] & 1) {
          // pointer to a const-qualified pointee
          rlbox::tainted<const T*, Sbx> ct = st.sb->UNSAFE_accept_pointer(const_cast<const T*>(raw));
          t = rlbox::sandbox_const_cast<T*>(ct);
        } else
          t = st.sb->UNSAFE_accept_pointer(raw);
      });
      C->ev("accept<%zu> cls %d -> %s", sizeof(T), cls, oname(o));
      if ((o == OK) != inside) {
        refusal(o);
        return;
      }
      if (o == OK) {
        if ((uintptr_t)t.UNSAFE_unverified() != addr)
          C->violate("C02", std::string("accepted_value_differs@") + opn, "class %d", cls);
        else
          push<T>(s, t, opn);
      }
    } else if (op.kind == C_ASSIGN_T) {
      TP<T> t = nullptr;
      if (op.a[5] & 1) {
        // destination already holds a valid pointer
        Outcome pre = attempt([&] { t = rlbox::sandbox_reinterpret_cast<T*>(st.scratch); });
        (void)pre;
      }
      uintptr_t prev = (uintptr_t)t.UNSAFE_unverified();
      Outcome o = attempt([&] { t.assign_raw_pointer(*st.sb, raw); });
      C->ev("assign_raw tainted<%zu> cls %d -> %s", sizeof(T), cls, oname(o));
      if ((o == OK) != inside) {
        refusal(o);
        return;
      }
      uintptr_t now = (uintptr_t)t.UNSAFE_unverified();
      if (o == OK && now != addr)
        C->violate("C02", std::string("accepted_value_differs@") + opn, "class %d", cls);
      else if (o != OK && now != prev)
        C->violate("C02", std::string("destination_changed_by_refused_assignment@") + opn, "class %d", cls);
      else if (o == OK)
        push<T>(s, t, opn);
    } else {
      if (st.state != 1)
        return;
      // the destination cell normally lives in the same sandbox; sometimes in ANOTHER live sandbox
      // (the sandbox that is passed decides what is acceptable, wherever the cell is)
      SbxState* cs = &st;
      if (op.a[5] & 2)
        for (auto& o2 : S)
          if (&o2 != &st && o2.state == 1) {
            cs = &o2;
            C->probe("destination_cell_in_another_sandbox");
            break;
          }
      auto cell = rlbox::sandbox_reinterpret_cast<T**>(cs->pcell);
      uint32_t celloff = (uint32_t)((uintptr_t)cs->pcell.UNSAFE_unverified() - cs->base());
      PT prev;
      memcpy(&prev, cs->impl()->gptr(celloff), sizeof prev);
      Outcome o = attempt([&] { (*cell).assign_raw_pointer(*st.sb, raw); });
      C->ev("assign_raw volatile<%zu> cls %d cell_in_own=%d -> %s", sizeof(T), cls, (int)(cs == &st), oname(o));
      if ((o == OK) != inside) {
        refusal(o);
        return;
      }
      PT now;
      memcpy(&now, cs->impl()->gptr(celloff), sizeof now);
      if (o == OK && now != (PT)(addr - st.base()))
        C->violate("C02", std::string("stored_representation_wrong@") + opn, "guest cell holds %llu expected %llu", (unsigned long long)now, (unsigned long long)(addr - st.base()));
      else if (o != OK && now != prev)
        C->violate("C02", std::string("destination_changed_by_refused_assignment@") + opn, "guest cell %llu -> %llu", (unsigned long long)prev, (unsigned long long)now);
    }
  }
  // A raw pointer to a derived object given where a pointer to its SECOND base is stored: the conversion moves the
  // address (by 4 here).  Whatever ends up stored (the statement does not say which of the two addresses) must lie
  // inside the sandbox, or the call must abort.
  struct CB1
  {
    int a;
  };
  struct CB2
  {
    int b;
  };
  struct CD : CB1, CB2
  {};
  void do_c02_derived(const Op& op)
  {
    int s = pick_sbx(op.a[0]);
    SbxState& st = S[(size_t)s];
    if (st.state != 1)
      return;
    // the derived object starts k bytes before the end of the region (k = 4: its second base lies outside), or somewhere inside
    unsigned sel = (unsigned)((uint64_t)op.a[3] % 4);
    uintptr_t addr = sel == 0 ? st.base() + st.size() - 4 : sel == 1 ? st.base() + st.size() - 8 : st.base() + (((uint64_t)op.a[3] >> 2) % (st.size() - 16) & ~(uint64_t)3);
    CD* raw = reinterpret_cast<CD*>(addr);
    uintptr_t conv = addr + 4;
    auto in = [&](uintptr_t a) { return a >= st.base() && a - st.base() < st.size(); };
    const char* opn = kKind[op.kind];
    C->probe("raw_pointer_converted_to_second_base_class");
    if (op.kind == C_ASSIGN_V) {
      auto cell = rlbox::sandbox_reinterpret_cast<CB2**>(st.pcell);
      uint32_t celloff = (uint32_t)((uintptr_t)st.pcell.UNSAFE_unverified() - st.base());
      Outcome o = attempt([&] { (*cell).assign_raw_pointer(*st.sb, raw); });
      PT now;
      memcpy(&now, st.impl()->gptr(celloff), sizeof now);
      C->ev("assign_raw volatile<second base> sel %u -> %s", sel, oname(o));
      if (o == OK && !(now == (PT)(addr - st.base()) || (now == (PT)(conv - st.base()) && in(conv))))
        C->violate("C02", std::string(now == (PT)(conv - st.base()) ? "foreign_address_accepted@" : "stored_representation_wrong@") + opn, "derived object %lld bytes before the end of the region: cell holds %llu", (long long)(st.base() + st.size() - addr), (unsigned long long)now);
      else if (o != OK && in(addr) && in(conv))
        C->violate("C02", std::string("in_sandbox_address_refused@") + opn, "derived object wholly inside");
    } else {
      rlbox::tainted<CB2*, Sbx> t = nullptr;
      Outcome o = attempt([&] {
        if (op.kind == C_ACCEPT)
          t = st.sb->UNSAFE_accept_pointer(static_cast<CB2*>(raw)); // the application converts itself: the converted address is what is given
        else
          t.assign_raw_pointer(*st.sb, raw);
      });
      uintptr_t now = (uintptr_t)t.UNSAFE_unverified();
      C->ev("assign_raw tainted<second base> sel %u -> %s", sel, oname(o));
      if (o == OK && !((now == addr && op.kind != C_ACCEPT) || (now == conv && in(conv))))
        C->violate("C02", std::string(now == conv ? "foreign_address_accepted@" : "accepted_value_differs@") + opn, "derived object %lld bytes before the end of the region: the tainted pointer is %lld bytes before the end", (long long)(st.base() + st.size() - addr), (long long)(st.base() + st.size() - now));
      else if (o != OK && in(addr) && in(conv))
        C->violate("C02", std::string("in_sandbox_address_refused@") + opn, "derived object wholly inside");
      else if (o != OK && now != 0)
        C->violate("C02", std::string("destination_changed_by_refused_assignment@") + opn, "second base");
    }
  }
  // Raw FUNCTION pointers: an application function's address is not inside the sandbox's memory either
  void do_c02_fnptr(const Op& op)
  {
    constexpr int NCLS = 14;
    int s = pick_sbx(op.a[0]);
    SbxState& st = S[(size_t)s];
    bool defined;
    int cls = (int)((uint64_t)op.a[1] % NCLS);
    uintptr_t addr = (op.a[3] & 1) ? (uintptr_t)&cb_a : addr_class(s, cls, (int)op.a[2], op.a[3], defined);
    if (!(op.a[3] & 1) && !defined)
      return;
    bool inside = st.state == 1 && addr >= st.base() && addr - st.base() < st.size();
    using Fn = void (*)();
    Fn raw = reinterpret_cast<Fn>(addr);
    const char* opn = kKind[op.kind];
    C->probe("raw_function_pointer_given");
    Outcome o;
    if (op.kind == C_ASSIGN_V) {
      if (st.state != 1)
        return;
      auto cell = rlbox::sandbox_reinterpret_cast<Fn*>(st.pcell);
      uint32_t celloff = (uint32_t)((uintptr_t)st.pcell.UNSAFE_unverified() - st.base());
      PT prev;
      memcpy(&prev, st.impl()->gptr(celloff), sizeof prev);
      uint64_t tr_before = sim::g_fn_translations;
      o = attempt([&] { (*cell).assign_raw_pointer(*st.sb, raw); });
      PT now;
      memcpy(&now, st.impl()->gptr(celloff), sizeof now);
      if (o != OK && sim::g_fn_translations != tr_before)
        C->violate("C02", std::string("refused_address_was_given_to_the_backend_for_translation@") + opn, "a function address that is refused reached the backend's address translation (%llu calls) - where a backend with a call table enters it", (unsigned long long)(sim::g_fn_translations - tr_before));
      else if (o != OK && now != prev)
        C->violate("C02", std::string("destination_changed_by_refused_assignment@") + opn, "function pointer cell %llu -> %llu", (unsigned long long)prev, (unsigned long long)now);
    } else {
      rlbox::tainted<Fn, Sbx> t = nullptr;
      o = attempt([&] {
        if (op.kind == C_ACCEPT)
          t = st.sb->UNSAFE_accept_pointer(raw);
        else
          t.assign_raw_pointer(*st.sb, raw);
      });
      if (o != OK && t != nullptr)
        C->violate("C02", std::string("destination_changed_by_refused_assignment@") + opn, "function pointer");
    }
    C->ev("%s <function pointer> %s -> %s", opn, (op.a[3] & 1) ? "application function" : "address class", oname(o));
    if ((o == OK) != inside)
      C->violate("C02", std::string(inside ? "in_sandbox_address_refused@" : "foreign_address_accepted@") + opn, "raw function pointer %s, outcome %s", (op.a[3] & 1) ? "to an application function" : "of an address class", oname(o));
  }
  void do_c02(const Op& op)
  {
    if ((op.a[5] & 12) == 12) {
      do_c02_derived(op);
      return;
    }
    if ((op.a[5] & 12) == 8) {
      do_c02_fnptr(op);
      return;
    }
    switch ((int)((uint64_t)op.a[4] % 3)) {
      case 0:
        do_c02_t<char>(op);
        break;
      case 1:
        do_c02_t<int>(op);
        break;
      default:
        do_c02_t<double>(op);
        break;
    }
  }

  void do_arith(const Op& op)
  {
    Handle* h = pick(op.a[0]);
    if (!h)
      return;
    int s = h->sbx;
    if (S[(size_t)s].state != 1)
      return;
    const char* opn = kKind[op.kind];
    int nt = (int)((uint64_t)op.a[1] % 5), wrap = (int)((uint64_t)op.a[2] % 3);
    int64_t n = op.a[3];
    Handle hc = *h; // copy, compound ops modify the copy and push it
    if (haddr(*h) == 0)
      C->probe("arith_on_null_pointer");
    Outcome o = attempt([&] {
      std::visit(
        [&](auto& t) {
          using TT = std::remove_reference_t<decltype(t)>;
          using T = std::remove_pointer_t<decltype(t.UNSAFE_unverified())>;
          with_n(s, nt, wrap, n, [&](auto& nv) {
            if (op.kind == P_ADD && (op.a[4] & 1)) {
              // the integer on the left: "3 + p", "tainted<int> + p", "cell + p" are pointer arithmetic as well
              C->probe("pointer_arithmetic_with_integer_on_the_left");
              TT r = nv + t;
              push<T>(s, r, opn);
            } else if (op.kind == P_ADD) {
              TT r = t + nv;
              push<T>(s, r, opn);
            } else if (op.kind == P_SUB) {
              TT r = t - nv;
              push<T>(s, r, opn);
            } else if (op.kind == P_ADDEQ) {
              t += nv;
              push<T>(s, t, opn);
            } else if (op.kind == P_SUBEQ) {
              t -= nv;
              push<T>(s, t, opn);
            } else if constexpr (!std::is_class_v<T>) {
              auto r = &t[nv];
              if constexpr (std::is_pointer_v<T>) {
                // an array of pointers in sandbox memory is laid out in the guest's pointer size: element n is n
                // representations further, which is also where "p + n" points and where the guest keeps it
                uintptr_t ra = (uintptr_t)r.UNSAFE_unverified();
                uintptr_t want = haddr(hc) + (uintptr_t)((int64_t)nv_value(nv) * (int64_t)sizeof(PT));
                if (ra != want)
                  C->violate("C04", "wrong_element_of_pointer_array_addressed@index_addr", "element %lld of an array of pointers: %lld bytes from the start instead of %lld", (long long)nv_value(nv), (long long)(ra - haddr(hc)), (long long)(want - haddr(hc)));
              }
              push<T>(s, rlbox::sandbox_const_cast<T*>(r), opn);
            }
          });
        },
        hc.v);
    });
    C->ev("%s n=%lld nt=%d wrap=%d -> %s", opn, (long long)n, nt, wrap, oname(o));
  }

  void do_incdec(const Op& op)
  {
    Handle* h = pick(op.a[0]);
    if (!h || S[(size_t)h->sbx].state != 1)
      return;
    int s = h->sbx;
    Handle hc = *h;
    int which = (int)((uint64_t)op.a[1] % 4);
    Outcome o = attempt([&] {
      std::visit(
        [&](auto& t) {
          using T = std::remove_pointer_t<decltype(t.UNSAFE_unverified())>;
          if (which == 0) {
            auto& r = ++t;
            push<T>(s, r, "incdec");
          } else if (which == 1) {
            auto r = t++;
            push<T>(s, r, "incdec");
            push<T>(s, t, "incdec");
          } else if (which == 2) {
            auto& r = --t;
            push<T>(s, r, "incdec");
          } else {
            auto r = t--;
            push<T>(s, r, "incdec");
            push<T>(s, t, "incdec");
          }
        },
        hc.v);
    });
    C->ev("incdec %d -> %s", which, oname(o));
  }

  void do_deref_addr(const Op& op)
  {
    Handle* h = pick(op.a[0]);
    if (!h || S[(size_t)h->sbx].state != 1)
      return;
    int s = h->sbx;
    Outcome o = attempt([&] {
      std::visit(
        [&](auto& t) {
          using T = std::remove_pointer_t<decltype(t.UNSAFE_unverified())>;
          // (&*p on a registered struct does not compile with the unchanged headers)
          if constexpr (!std::is_class_v<T>) {
            auto r = &(*t);
            push<T>(s, rlbox::sandbox_const_cast<T*>(r), "deref_addr");
          }
        },
        h->v);
    });
    C->ev("deref_addr -> %s", oname(o));
  }

  void do_field_addr(const Op& op)
  {
    Handle* h = pick(op.a[0], T_NODE);
    if (!h || S[(size_t)h->sbx].state != 1)
      return;
    int s = h->sbx;
    auto& t = std::get<TP<SimNode>>(h->v);
    if (haddr(*h) == 0)
      C->probe("field_addr_on_null_pointer");
    int f = (int)((uint64_t)op.a[1] % 11);
    Outcome o = attempt([&] {
      switch (f) {
        case 9:
        case 10: {
          // nested fixed array: row index (any integer type / wrapper), then column
          auto gp = rlbox::sandbox_reinterpret_cast<SimGrid*>(t);
          if (op.a[2] & 8) // the grid occupies the very last bytes of the region
            gp = S[(size_t)s].sb->UNSAFE_accept_pointer(reinterpret_cast<SimGrid*>(S[(size_t)s].base() + S[(size_t)s].size() - sizeof(SimGrid)));
          int64_t col = op.a[2] % 5; // 4 is out of range: must abort
          with_n(s, (int)((uint64_t)op.a[4] % 5), (int)((uint64_t)op.a[5] % 3), op.a[3], [&](auto& row) {
            if (f == 9)
              push<int>(s, &gp->m[row][col], "field_addr");
            else
              push<char>(s, rlbox::sandbox_reinterpret_cast<char*>(&gp->m[row]), "field_addr");
          });
          C->probe("nested_array_field_indexed");
          break;
        }
        case 7:
        case 8: {
          // element of a fixed array field, index of any integer type and wrapper form (bounds-checked: abort or in range);
          // the struct is the handle's, or one that occupies the very last bytes of the region
          auto tn = t;
          if (op.a[2] & 16) {
            tn = S[(size_t)s].sb->UNSAFE_accept_pointer(reinterpret_cast<SimNode*>(S[(size_t)s].base() + S[(size_t)s].size() - sizeof(GNode)));
            C->probe("array_field_of_struct_on_the_last_bytes_indexed");
          }
          if (f == 7)
            with_n(s, (int)((uint64_t)op.a[4] % 5), (int)((uint64_t)op.a[5] % 3), op.a[3], [&](auto& nv) { push<char>(s, &tn->name[nv], "field_addr"); });
          else
            with_n(s, (int)((uint64_t)op.a[4] % 5), (int)((uint64_t)op.a[5] % 3), op.a[3], [&](auto& nv) { push<int*>(s, &tn->ptrs[nv], "field_addr"); });
          C->probe("fixed_array_field_indexed_with_arbitrary_integer");
          break;
        }
        case 0:
          push<char>(s, rlbox::sandbox_reinterpret_cast<char*>(&t->tag), "field_addr");
          break;
        case 1:
          push<char>(s, rlbox::sandbox_reinterpret_cast<char*>(&t->next), "field_addr");
          break;
        case 2:
          // (spelt with * and . in half of the cases: that path has no null test of its own, the refusal of a null
          // struct pointer then rests on the membership test of the dereference)
          if (op.a[2] & 32)
            push<int*>(s, &(*t).data, "field_addr");
          else
            push<int*>(s, &t->data, "field_addr");
          break;
        case 3:
          push<char>(s, rlbox::sandbox_reinterpret_cast<char*>(&t->name), "field_addr");
          break;
        case 4:
          push<int*>(s, &t->ptrs[(size_t)((uint64_t)op.a[2] % 3)], "field_addr");
          break;
        case 5:
          push<char>(s, &t->name[(size_t)((uint64_t)op.a[2] % 8)], "field_addr");
          break;
        default:
          if (op.a[2] & 32)
            push<long long>(s, rlbox::sandbox_reinterpret_cast<long long*>(&(*t).big), "field_addr");
          else
            push<long long>(s, rlbox::sandbox_reinterpret_cast<long long*>(&t->big), "field_addr");
          break;
      }
    });
    C->ev("field_addr %d -> %s", f, oname(o));
  }

  // loads: C03 on the result, C04 on the translation
  void check_load(int s, uint32_t celloff, uintptr_t got, const char* opn)
  {
    SbxState& st = S[(size_t)s];
    PT rep;
    memcpy(&rep, st.impl()->gptr(celloff), sizeof rep);
    uintptr_t want = rep == 0 ? 0 : st.base() + (rep & (st.size() - 1));
    if (got != want) {
      const LiveRegion* lr = got ? region_of((void*)got) : nullptr;
      C->violate("C04",
                 std::string(rep == 0 ? "null_not_preserved@" : lr && lr->inst != st.impl() ? "translated_relative_to_other_sandbox@" : "wrong_address@") + opn,
                 "cell holds representation %llu, load produced offset %lld (expected %lld)",
                 (unsigned long long)rep,
                 got ? (long long)(got - st.base()) : -1LL,
                 want ? (long long)(want - st.base()) : -1LL);
    }
  }
  void do_load(const Op& op)
  {
    Handle* h = pick(op.a[0], T_PINT);
    if (!h || !fits(*h, sizeof(PT)))
      return;
    int s = h->sbx;
    auto& pp = std::get<TP<int*>>(h->v);
    uint32_t off = (uint32_t)(haddr(*h) - S[(size_t)s].base());
    TP<int> q = nullptr;
    Outcome o = attempt([&] {
      if (op.a[1] & 16) {
        // the same cell read as a pointer to a function pointer: two levels of indirection that end in a function type -
        // what comes out designates a cell (data), not a function
        using PFn = void (**)();
        auto as_pfn_cell = rlbox::sandbox_reinterpret_cast<PFn*>(pp);
        rlbox::tainted<PFn, Sbx> pf = *as_pfn_cell;
        q = rlbox::sandbox_reinterpret_cast<int*>(pf);
        C->probe("pointer_to_function_pointer_loaded_from_sandbox_memory");
      } else
        q = *pp;
    });
    C->ev("load -> %s", oname(o));
    if (o == OK) {
      check_load(s, off, (uintptr_t)q.UNSAFE_unverified(), "load");
      push<int>(s, q, "load");
    } else {
      C->violate("C04", "load_fails@load", "loading a pointer cell of live sandbox #%d: %s: %s", s, oname(o), g_last_abort_msg.c_str());
    }
  }
  void do_load_field(const Op& op, bool via_struct)
  {
    Handle* h = pick(op.a[0], T_NODE);
    if (!h || !fits(*h, sizeof(GNode)))
      return;
    int s = h->sbx;
    auto& t = std::get<TP<SimNode>>(h->v);
    uint32_t off = (uint32_t)(haddr(*h) - S[(size_t)s].base());
    int f = (int)((uint64_t)op.a[1] % 3);
    size_t idx = (size_t)((uint64_t)op.a[2] % 3);
    const char* opn = via_struct ? "load_struct" : "load_field";
    Outcome o = attempt([&] {
      if (via_struct) {
        rlbox::tainted<SimNode, Sbx> n = *t;
        if (f == 0) {
          check_load(s, off + (uint32_t)offsetof(GNode, data), (uintptr_t)n.data.UNSAFE_unverified(), opn);
          push<int>(s, n.data, opn);
        } else if (f == 1) {
          check_load(s, off + (uint32_t)offsetof(GNode, next), (uintptr_t)n.next.UNSAFE_unverified(), opn);
          push<SimNode>(s, n.next, opn);
        } else {
          TP<int> e = n.ptrs[idx];
          check_load(s, off + (uint32_t)offsetof(GNode, ptrs) + (uint32_t)sizeof(PT) * (uint32_t)idx, (uintptr_t)e.UNSAFE_unverified(), opn);
          push<int>(s, e, opn);
        }
      } else if (op.a[1] & 4) {
        // through a pointer to a const struct (and a const copy of the whole struct)
        rlbox::tainted<const SimNode*, Sbx> ct = rlbox::sandbox_const_cast<const SimNode*>(t);
        C->probe("struct_accessed_through_pointer_to_const");
        if (f == 0) {
          rlbox::tainted<int*, Sbx> q = ct->data;
          check_load(s, off + (uint32_t)offsetof(GNode, data), (uintptr_t)q.UNSAFE_unverified(), opn);
          push<int>(s, q, opn);
        } else if (f == 1) {
          rlbox::tainted<SimNode*, Sbx> q = ct->next;
          check_load(s, off + (uint32_t)offsetof(GNode, next), (uintptr_t)q.UNSAFE_unverified(), opn);
          push<SimNode>(s, q, opn);
        } else {
          rlbox::tainted<int*, Sbx> q = ct->ptrs[idx];
          check_load(s, off + (uint32_t)offsetof(GNode, ptrs) + (uint32_t)sizeof(PT) * (uint32_t)idx, (uintptr_t)q.UNSAFE_unverified(), opn);
          push<int>(s, q, opn);
        }
      } else {
        if (f == 0) {
          TP<int> q = t->data;
          check_load(s, off + (uint32_t)offsetof(GNode, data), (uintptr_t)q.UNSAFE_unverified(), opn);
          push<int>(s, q, opn);
        } else if (f == 1) {
          TP<SimNode> q = t->next;
          check_load(s, off + (uint32_t)offsetof(GNode, next), (uintptr_t)q.UNSAFE_unverified(), opn);
          push<SimNode>(s, q, opn);
        } else {
          TP<int> q = t->ptrs[idx];
          check_load(s, off + (uint32_t)offsetof(GNode, ptrs) + (uint32_t)sizeof(PT) * (uint32_t)idx, (uintptr_t)q.UNSAFE_unverified(), opn);
          push<int>(s, q, opn);
        }
      }
    });
    C->ev("%s f%d -> %s", opn, f, oname(o));
    if (o != OK && !C->stop)
      C->violate("C04", std::string("load_fails@") + opn, "loading pointer field of live sandbox #%d: %s: %s", s, oname(o), g_last_abort_msg.c_str());
  }

  void check_store(int s, uint32_t celloff, uintptr_t stored, const char* opn)
  {
    SbxState& st = S[(size_t)s];
    PT rep;
    memcpy(&rep, st.impl()->gptr(celloff), sizeof rep);
    PT want = stored == 0 ? 0 : (PT)(stored - st.base());
    if (rep != want)
      C->violate("C04",
                 std::string(stored == 0 ? "null_not_preserved@" : "wrong_representation@") + opn,
                 "stored offset %lld, guest cell holds %llu (expected %llu)",
                 stored ? (long long)(stored - st.base()) : -1LL,
                 (unsigned long long)rep,
                 (unsigned long long)want);
  }
  // a guest thread that looks at one pointer cell whenever the library touches the region (trap-MMU runs)
  struct CellWatch
  {
    uint8_t* gcell;
    PT seen[8];
    int n;
  };
  static void watch_hook(uint64_t, uint32_t, bool, void* ud)
  {
    auto* w = (CellWatch*)ud;
    PT v;
    memcpy(&v, w->gcell, sizeof v);
    if (w->n < 8)
      w->seen[w->n++] = v;
  }
  void do_store(const Op& op)
  {
    Handle* h = pick(op.a[0], T_PINT);
    if (!h || !fits(*h, sizeof(PT)))
      return;
    int s = h->sbx;
    Handle* q = pick(op.a[1], T_INT);
    TP<int> qv = nullptr;
    if (q && q->sbx == s && (op.a[2] % 4) != 0)
      qv = std::get<TP<int>>(q->v);
    else if (q && q->sbx != s && S[(size_t)q->sbx].state == 1 && (op.a[2] % 4) != 0 && (op.a[2] & 8)) {
      // a pointer into ANOTHER live sandbox: nothing stops the application from storing it here; what the cell then
      // holds is still computed relative to the sandbox the cell lives in, never relative to the other one
      qv = std::get<TP<int>>(q->v);
      if (qv != nullptr)
        C->probe("pointer_of_another_sandbox_stored");
    }
    auto& pp = std::get<TP<int*>>(h->v);
    uint32_t off = (uint32_t)(haddr(*h) - S[(size_t)s].base());
    bool as_null = (op.a[2] % 4) == 0;
    CellWatch cw{ S[(size_t)s].impl()->gptr(off), {}, 0 };
    PT old_rep;
    memcpy(&old_rep, cw.gcell, sizeof old_rep);
    // the bytes around the cell (other array elements, neighbouring fields) are not the store's business
    const size_t lo = off >= 16 ? 16 : off, hi = std::min<size_t>(16, S[(size_t)s].size() - off - sizeof(PT));
    uint8_t around_before[16 + sizeof(PT) + 16];
    memcpy(around_before, cw.gcell - lo, lo + sizeof(PT) + hi);
    if (hi >= 4 && around_before[lo + sizeof(PT)] == 0 && around_before[lo + sizeof(PT) + 1] == 0 && around_before[lo + sizeof(PT) + 2] == 0 && around_before[lo + sizeof(PT) + 3] == 0) {
      // make the neighbour visibly non-zero
      memset(cw.gcell + sizeof(PT), 0x5C, 4);
      memset(around_before + lo + sizeof(PT), 0x5C, 4);
    }
    if (Sbx::cfg.mmu)
      mmu::arm(S[(size_t)s].impl()->mem.base, S[(size_t)s].size(), watch_hook, &cw);
    Outcome o = attempt([&] {
      if (as_null)
        *pp = nullptr;
      else
        *pp = qv;
    });
    if (Sbx::cfg.mmu) {
      C->st.steps += mmu::g.count;
      mmu::disarm();
      C->probe("pointer_cell_watched_during_store");
      // the guest may run at any instant: all it may ever find in the cell is what was there before or what is stored now
      PT new_rep = as_null || qv == nullptr ? (PT)0 : (PT)((uintptr_t)qv.UNSAFE_unverified() - S[(size_t)s].base());
      for (int i = 0; i < cw.n && !C->stop; i++)
        if (cw.seen[i] != old_rep && cw.seen[i] != new_rep)
          C->violate("C04", "cell_held_representation_never_stored@store", "cell went from %llu to %llu, in between the guest could read %llu", (unsigned long long)old_rep, (unsigned long long)new_rep, (unsigned long long)cw.seen[i]);
    }
    C->ev("store -> %s", oname(o));
    {
      uint8_t around_after[16 + sizeof(PT) + 16];
      memcpy(around_after, cw.gcell - lo, lo + sizeof(PT) + hi);
      if (!C->stop && (memcmp(around_before, around_after, lo) != 0 || memcmp(around_before + lo + sizeof(PT), around_after + lo + sizeof(PT), hi) != 0))
        C->violate("C04", "store_changed_bytes_next_to_the_cell@store", "a %s store into the %zu-byte cell at offset %u changed sandbox bytes before or behind it", as_null ? "null" : "pointer", sizeof(PT), off);
    }
    if (o == OK)
      check_store(s, off, as_null ? 0 : (uintptr_t)qv.UNSAFE_unverified(), "store");
    else
      C->violate("C04", "store_aborts@store", "%s", g_last_abort_msg.c_str());
  }
  void do_store_field(const Op& op)
  {
    Handle* h = pick(op.a[0], T_NODE);
    if (!h || !fits(*h, sizeof(GNode)))
      return;
    int s = h->sbx;
    auto& t = std::get<TP<SimNode>>(h->v);
    uint32_t off = (uint32_t)(haddr(*h) - S[(size_t)s].base());
    int f = (int)((uint64_t)op.a[1] % 3);
    size_t idx = (size_t)((uint64_t)op.a[2] % 3);
    Handle* qi = pick(op.a[3] + op.a[2], T_INT);
    Handle* qn = pick(op.a[3] + op.a[2], T_NODE);
    TP<int> qiv = nullptr;
    TP<SimNode> qnv = nullptr;
    if (qi && qi->sbx == s)
      qiv = std::get<TP<int>>(qi->v);
    if (qn && qn->sbx == s)
      qnv = std::get<TP<SimNode>>(qn->v);
    Outcome o = attempt([&] {
      if (f == 0) {
        t->data = qiv;
        check_store(s, off + (uint32_t)offsetof(GNode, data), (uintptr_t)qiv.UNSAFE_unverified(), "store_field");
      } else if (f == 1) {
        t->next = qnv;
        check_store(s, off + (uint32_t)offsetof(GNode, next), (uintptr_t)qnv.UNSAFE_unverified(), "store_field");
      } else {
        t->ptrs[idx] = qiv;
        check_store(s, off + (uint32_t)offsetof(GNode, ptrs) + (uint32_t)sizeof(PT) * (uint32_t)idx, (uintptr_t)qiv.UNSAFE_unverified(), "store_field");
      }
    });
    C->ev("store_field f%d -> %s", f, oname(o));
    if (o != OK && !C->stop)
      C->violate("C04", "store_aborts@store_field", "%s: %s", oname(o), g_last_abort_msg.c_str());
  }
  void do_store_struct(const Op& op)
  {
    Handle* d = pick(op.a[0], T_NODE);
    Handle* sH = pick(op.a[1], T_NODE);
    if (!d || !sH || d->sbx != sH->sbx || !fits(*d, sizeof(GNode)) || !fits(*sH, sizeof(GNode)))
      return;
    int s = d->sbx;
    SbxState& st = S[(size_t)s];
    auto& dt = std::get<TP<SimNode>>(d->v);
    auto& stt = std::get<TP<SimNode>>(sH->v);
    uint32_t doff = (uint32_t)(haddr(*d) - st.base()), soff = (uint32_t)(haddr(*sH) - st.base());
    GNode before;
    memcpy(&before, st.impl()->gptr(soff), sizeof before);
    Outcome o = attempt([&] {
      rlbox::tainted<SimNode, Sbx> n = *stt;
      *dt = n;
    });
    C->ev("store_struct -> %s", oname(o));
    if (o != OK)
      return;
    C->probe("struct_copied_through_application");
    GNode after;
    memcpy(&after, st.impl()->gptr(doff), sizeof after);
    auto norm = [&](PT rep) { return rep == 0 ? (PT)0 : (PT)(rep & (st.size() - 1)); };
    bool ok = norm(before.next) == after.next && norm(before.data) == after.data;
    for (int i = 0; i < 3; i++)
      ok = ok && norm(before.ptrs[i]) == after.ptrs[i];
    bool nullok = (before.next == 0) == (after.next == 0) && (before.data == 0) == (after.data == 0);
    if (!ok && (doff > soff ? doff - soff : soff - doff) >= sizeof(GNode))
      C->violate("C04", std::string(nullok ? "wrong_representation@" : "null_not_preserved@") + "store_struct", "pointer fields of a struct copied sandbox->app->sandbox changed representation");
  }

  void do_cast(const Op& op)
  {
    Handle* h = pick(op.a[0]);
    if (!h || S[(size_t)h->sbx].state != 1)
      return;
    int s = h->sbx;
    int to = (int)((uint64_t)op.a[1] % T_COUNT);
    uintptr_t before = haddr(*h);
    Handle hc = *h;
    std::visit(
      [&](auto& t) {
        auto doit = [&](auto tagptr) {
          using U = std::remove_pointer_t<decltype(tagptr)>;
          if (op.a[2] & 1) {
            // through a const-qualified pointee and back
            using T0 = std::remove_pointer_t<decltype(t.UNSAFE_unverified())>;
            rlbox::tainted<const T0*, Sbx> ct = rlbox::sandbox_const_cast<const T0*>(t);
            auto back = rlbox::sandbox_const_cast<T0*>(ct);
            if ((uintptr_t)back.UNSAFE_unverified() != before)
              C->violate("C03", "cast_changed_address@cast", "const cast round trip moved the pointer");
          }
          if (op.a[2] & 2) {
            // static_cast to void* and on to the target type
            rlbox::tainted<void*, Sbx> vp = rlbox::sandbox_static_cast<void*>(t);
            TP<U> viav = rlbox::sandbox_static_cast<U*>(vp);
            if ((uintptr_t)vp.UNSAFE_unverified() != before || (uintptr_t)viav.UNSAFE_unverified() != before)
              C->violate("C03", "cast_changed_address@cast", "static cast through void* moved the pointer");
          }
          TP<U> r = rlbox::sandbox_reinterpret_cast<U*>(t);
          if ((uintptr_t)r.UNSAFE_unverified() != before)
            C->violate("C03", "cast_changed_address@cast", "reinterpret cast moved the pointer");
          push<U>(s, r, "cast");
        };
        switch (to) {
          case T_CHAR:
            doit((char*)nullptr);
            break;
          case T_SHORT:
            doit((short*)nullptr);
            break;
          case T_INT:
            doit((int*)nullptr);
            break;
          case T_LONG:
            doit((long*)nullptr);
            break;
          case T_LL:
            doit((long long*)nullptr);
            break;
          case T_DOUBLE:
            doit((double*)nullptr);
            break;
          case T_PINT:
            doit((int**)nullptr);
            break;
          default:
            doit((SimNode*)nullptr);
            break;
        }
      },
      hc.v);
  }
  void do_opaque(const Op& op)
  {
    Handle* h = pick(op.a[0]);
    if (!h || S[(size_t)h->sbx].state != 1)
      return;
    int s = h->sbx;
    Handle hc = *h;
    std::visit(
      [&](auto& t) {
        using T = std::remove_pointer_t<decltype(t.UNSAFE_unverified())>;
        auto op2 = t.to_opaque();
        TP<T> back = rlbox::from_opaque(op2);
        push<T>(s, back, "opaque");
      },
      hc.v);
  }
  void do_guest_write(const Op& op)
  {
    Handle* h = pick(op.a[0]);
    if (!h || !fits(*h, sizeof(PT)))
      return;
    SbxState& st = S[(size_t)h->sbx];
    uint32_t off = (uint32_t)(haddr(*h) - st.base());
    PT bits = (PT)(uint32_t)op.a[1];
    if (sizeof(PT) == 8 && (op.a[2] & 1))
      bits |= (PT)((uint64_t)op.a[1] << 33); // garbage in the upper half of a wide representation
    memcpy(st.impl()->gptr(off), &bits, sizeof bits);
    C->ev("guest writes %llu at %u", (unsigned long long)bits, off);
    C->fired("F1_hostile_cell_value");
  }
  void do_app_ptr(const Op& op)
  {
    int s = pick_sbx(op.a[0]);
    SbxState& st = S[(size_t)s];
    if (st.state != 1)
      return;
    static int obj;
    Outcome o = attempt([&] {
      auto owner = st.sb->get_app_pointer(&obj);
      TP<int> t = owner.to_tainted();
      push<int>(s, t, "app_ptr");
    });
    C->ev("app_ptr -> %s", oname(o));
  }
  void do_grant(const Op& op)
  {
    int s = pick_sbx(op.a[0]);
    SbxState& st = S[(size_t)s];
    if (st.state != 1)
      return;
    size_t n = (size_t)op.a[1];
    if (n == 0 || n > 64)
      n = 8;
    // application buffer that does not straddle a region-size-aligned boundary
    static char pool[256];
    char* buf = pool + 64;
    if (((uintptr_t)buf & ~(uintptr_t)(st.size() - 1)) != (((uintptr_t)buf + n - 1) & ~(uintptr_t)(st.size() - 1)))
      buf = pool + 160;
    for (size_t i = 0; i < n; i++)
      buf[i] = (char)('a' + i % 26);
    if (op.a[2]) {
      g_fault.grant_refuse = 1;
      g_fault.refuse_echoes_pointer = (op.a[2] & 2) != 0;
    }
    bool copied = false;
    Outcome o = attempt([&] {
      TP<char> t = rlbox::copy_memory_or_grant_access(*st.sb, buf, n, false, copied);
      push<char>(s, t, "grant");
    });
    g_fault.clear();
    C->ev("grant n=%zu refuse=%d -> %s copied=%d", n, (int)op.a[2], oname(o), (int)copied);
  }
  void do_echo(const Op& op)
  {
    Handle* h = pick(op.a[0], T_CHAR);
    if (!h || S[(size_t)h->sbx].state != 1)
      return;
    int s = h->sbx;
    SbxState& st = S[(size_t)s];
    auto& t = std::get<TP<char>>(h->v);
    uintptr_t a = haddr(*h);
    if (a == st.base())
      return; // offset 0 shares its representation with null: no round trip is promised for it
    size_t before = g_glog.size();
    TP<char> r = nullptr;
    bool opaque = (op.a[1] & 1) != 0;
    Outcome o = attempt([&] {
      if (opaque)
        r = st.sb->invoke_sandbox_function(g_echo_ptr, t.to_opaque());
      else
        r = st.sb->invoke_sandbox_function(g_echo_ptr, t);
    });
    C->ev("invoke echo -> %s", oname(o));
    if (o != OK) {
      C->violate("C04", "invoke_with_pointer_aborts@invoke_echo", "%s", g_last_abort_msg.c_str());
      return;
    }
    PT want = a == 0 ? 0 : (PT)(a - st.base());
    if (g_glog.size() != before + 1 || g_glog.back().a0 != want) {
      C->violate("C04",
                 std::string(a == 0 ? "null_not_preserved@" : "wrong_representation@") + "invoke_echo",
                 "guest saw pointer argument %llu, expected %llu",
                 g_glog.size() > before ? (unsigned long long)g_glog.back().a0 : 0ULL,
                 (unsigned long long)want);
      return;
    }
    if ((uintptr_t)r.UNSAFE_unverified() != a)
      C->violate("C04", std::string(a == 0 ? "null_not_preserved@" : "wrong_address@") + "invoke_echo", "result of echo differs from the argument");
    else
      push<char>(s, r, "invoke_echo");
  }
  void do_retptr(const Op& op)
  {
    int s = pick_sbx(op.a[0]);
    SbxState& st = S[(size_t)s];
    if (st.state != 1)
      return;
    uint32_t bits = (uint32_t)op.a[1];
    TP<char> r = nullptr;
    Outcome o = attempt([&] { r = st.sb->invoke_sandbox_function(g_ret_ptr, bits); });
    C->ev("invoke retptr %u -> %s", bits, oname(o));
    C->fired("F1_hostile_result");
    if (o != OK)
      return;
    uintptr_t want = bits == 0 ? 0 : st.base() + (bits & (st.size() - 1));
    if ((uintptr_t)r.UNSAFE_unverified() != want)
      C->violate("C04", std::string(bits == 0 ? "null_not_preserved@" : "wrong_address@") + "invoke_retptr", "guest returned %u", bits);
    push<char>(s, r, "invoke_retptr");
  }
  void do_callback(const Op& op)
  {
    int s = pick_sbx(op.a[0]);
    SbxState& st = S[(size_t)s];
    if (st.state != 1 || !st.cbptr || st.cbptr->is_unregistered())
      return;
    uint32_t bits = (uint32_t)op.a[1];
    Handle* rh = pick(op.a[2], T_CHAR);
    g_cb_ret = nullptr;
    if (rh && rh->sbx == s && (op.a[3] & 1) == 0)
      g_cb_ret = std::get<TP<char>>(rh->v);
    uintptr_t retaddr = (uintptr_t)g_cb_ret.UNSAFE_unverified();
    int calls = g_cb_calls;
    g_cb_sandbox_seen = nullptr;
    TP<char> r = nullptr;
    Outcome o = attempt([&] { r = st.sb->invoke_sandbox_function(g_call_cb, *st.cbptr, bits); });
    C->ev("invoke callback bits %u -> %s", bits, oname(o));
    C->fired("F1_hostile_callback_argument");
    if (o != OK) {
      C->violate("C04", "callback_with_pointer_aborts@invoke_callback", "%s: %s", oname(o), g_last_abort_msg.c_str());
      return;
    }
    if (g_cb_calls != calls + 1 || g_cb_sandbox_seen != st.sb.get()) {
      C->violate("C12", "callback_wrong_sandbox_or_count@invoke_callback", "calls %d sandbox match %d", g_cb_calls - calls, (int)(g_cb_sandbox_seen == st.sb.get()));
      return;
    }
    uintptr_t want = bits == 0 ? 0 : st.base() + (bits & (st.size() - 1));
    if (g_cb_arg_seen != want) {
      C->violate("C04", std::string(bits == 0 ? "null_not_preserved@" : "wrong_address@") + "invoke_callback", "callback argument for guest bits %u", bits);
      return;
    }
    check_ptr(s, g_cb_arg_seen, "invoke_callback");
    PT wantrep = retaddr == 0 ? 0 : (PT)(retaddr - st.base());
    if (g_cb_result_seen != wantrep)
      C->violate("C04",
                 std::string(retaddr == 0 ? "null_not_preserved@" : "wrong_representation@") + "invoke_callback",
                 "guest received %llu from the callback, expected %llu",
                 (unsigned long long)g_cb_result_seen,
                 (unsigned long long)wantrep);
  }

  // Operations applied directly to a pointer that lives in sandbox memory (tainted_volatile<T*>),
  // with the guest rewriting that cell at RLBox's k-th access to the region (trap-MMU runs).
  struct VolFault
  {
    uint8_t* gcell;
    uint64_t k;
    PT value;
    bool fired;
  };
  static void vol_hook(uint64_t k, uint32_t, bool, void* ud)
  {
    auto* f = (VolFault*)ud;
    if (!f->fired && k == f->k) {
      memcpy(f->gcell, &f->value, sizeof(PT));
      f->fired = true;
    }
  }
  void do_volatile(const Op& op)
  {
    Handle* h = pick(op.a[0], T_PINT);
    Handle* hn = pick(op.a[0], T_NODE);
    int which = (int)((uint64_t)op.a[1] % 8);
    bool use_node = which == 4;
    if (use_node ? (!hn || !fits(*hn, sizeof(GNode))) : (!h || !fits(*h, sizeof(PT))))
      return;
    int s = use_node ? hn->sbx : h->sbx;
    SbxState& st = S[(size_t)s];
    uint32_t celloff = use_node ? (uint32_t)(haddr(*hn) - st.base()) + (uint32_t)offsetof(GNode, next) : (uint32_t)(haddr(*h) - st.base());
    // make the cell hold a valid pointer first (the scratch cell of this sandbox)
    PT valid = (PT)((uintptr_t)st.scratch.UNSAFE_unverified() - st.base());
    memcpy(st.impl()->gptr(celloff), &valid, sizeof valid);
    VolFault vf;
    vf.gcell = st.impl()->gptr(celloff);
    vf.k = (uint64_t)op.a[3];
    int mut = (int)((uint64_t)op.a[4] % 3);
    vf.value = mut == 0 ? (PT)0 : mut == 1 ? (PT)(((uint64_t)op.a[5] & (st.size() - 1)) | 8) : (PT)((uint64_t)op.a[5] * 2654435761u);
    vf.fired = false;
    int64_t n = op.a[2];
    bool in_place = false;
    int64_t want_delta = 0;
    bool armed = Sbx::cfg.mmu && vf.k != 0;
    if (armed)
      mmu::arm(st.impl()->mem.base, st.size(), vol_hook, &vf);
    Outcome o = attempt([&] {
      if (use_node) {
        auto& t = std::get<TP<SimNode>>(hn->v);
        auto r = &(t->next->tag); // operator-> applied to a pointer stored in sandbox memory
        push<long>(s, rlbox::sandbox_const_cast<long*>(r), "volatile_ptr_op");
      } else {
        auto& pp = std::get<TP<int*>>(h->v);
        auto& vp = *pp; // tainted_volatile<int*>&
        if (which == 0) {
          TP<int> r = vp + (int)n;
          push<int>(s, r, "volatile_ptr_op");
        } else if (which == 1) {
          TP<int> r = vp - (long)n;
          push<int>(s, r, "volatile_ptr_op");
        } else if (which == 2) {
          auto r = &vp[(unsigned)n];
          push<int>(s, rlbox::sandbox_const_cast<int*>(r), "volatile_ptr_op");
        } else if (which >= 5) {
          // the pointer is updated where it lives: compound assignment and increment / decrement
          in_place = true;
          if (which == 5) {
            vp += (int)n;
            want_delta = (int64_t)(int)n * 4;
          } else if (which == 6) {
            vp -= (long)n;
            want_delta = -(int64_t)(long)n * 4;
          } else {
            // (the postfix forms do not compile for a value that lives in sandbox memory)
            if ((uint64_t)n % 2 == 0) {
              ++vp;
              want_delta = 4;
            } else {
              --vp;
              want_delta = -4;
            }
          }
        } else if (n & 1) {
          auto r = &(*vp);
          push<int>(s, rlbox::sandbox_const_cast<int*>(r), "volatile_ptr_op");
        } else {
          // casts applied directly to the pointer stored in sandbox memory
          TP<char> r = rlbox::sandbox_reinterpret_cast<char*>(vp);
          push<char>(s, r, "volatile_ptr_op");
          rlbox::tainted<const int*, Sbx> r2 = rlbox::sandbox_const_cast<const int*>(vp);
          push<int>(s, rlbox::sandbox_const_cast<int*>(r2), "volatile_ptr_op");
        }
      }
    });
    if (armed) {
      C->st.steps += mmu::g.count;
      mmu::disarm();
    }
    C->ev("volatile_ptr_op %d n=%lld strike@%llu mut=%d fired=%d -> %s", which, (long long)n, (unsigned long long)vf.k, mut, (int)vf.fired, oname(o));
    if (vf.fired)
      C->fired("F2_pointer_cell_rewritten_between_accesses");
    if (in_place || (which >= 5 && o != OK)) {
      C->probe("pointer_updated_in_place_in_sandbox_memory");
      PT now;
      memcpy(&now, st.impl()->gptr(celloff), sizeof now);
      if (!vf.fired && !C->stop) {
        // nothing interfered: the cell holds exactly old + delta when that lies inside the region, and is untouched after an abort
        __int128 want = (__int128)(uint64_t)valid + want_delta;
        bool fits_region = want >= 0 && want < (__int128)st.size();
        if (o == OK && (!fits_region || now != (PT)want))
          C->violate("C03", "escaped_pointer@volatile_ptr_op", "pointer in a cell updated in place: representation %llu -> %llu (step %lld bytes, region %zu bytes)", (unsigned long long)valid, (unsigned long long)now, (long long)want_delta, st.size());
        else if (o != OK && now != valid)
          C->violate("C03", "cell_changed_by_refused_update@volatile_ptr_op", "representation %llu -> %llu although the update aborted", (unsigned long long)valid, (unsigned long long)now);
      } else if (vf.fired && o == OK && (uint64_t)now >= st.size() && !C->stop) {
        C->violate("C03", "escaped_pointer@volatile_ptr_op", "pointer in a cell updated in place while the guest rewrote it: the stored representation %llu lies beyond the region", (unsigned long long)now);
      }
    }
  }

  // whole array of pointers: sandbox -> application -> (other node's) sandbox memory
  void do_array_copy(const Op& op)
  {
    Handle* a = pick(op.a[0], T_NODE);
    Handle* b = pick(op.a[1], T_NODE);
    if (!a || !b || a->sbx != b->sbx || !fits(*a, sizeof(GNode)) || !fits(*b, sizeof(GNode)))
      return;
    int s = a->sbx;
    SbxState& st = S[(size_t)s];
    auto& ta = std::get<TP<SimNode>>(a->v);
    auto& tb = std::get<TP<SimNode>>(b->v);
    uint32_t aoff = (uint32_t)(haddr(*a) - st.base()), boff = (uint32_t)(haddr(*b) - st.base());
    if ((aoff > boff ? aoff - boff : boff - aoff) < sizeof(GNode))
      return; // overlapping objects: the expected destination content is not defined by the source alone
    PT before[3];
    memcpy(before, st.impl()->gptr(aoff + (uint32_t)offsetof(GNode, ptrs)), sizeof before);
    bool direct = (op.a[2] & 1) != 0; // volatile -> volatile array assignment without passing through the application
    Outcome o = attempt([&] {
      if (direct) {
        tb->ptrs = ta->ptrs;
      } else {
        rlbox::tainted<int* [3], Sbx> arr = ta->ptrs;
        for (size_t i = 0; i < 3; i++) {
          TP<int> e = arr[i];
          check_load(s, aoff + (uint32_t)offsetof(GNode, ptrs) + (uint32_t)(sizeof(PT) * i), (uintptr_t)e.UNSAFE_unverified(), "array_of_pointers_copy");
          check_ptr(s, (uintptr_t)e.UNSAFE_unverified(), "array_of_pointers_copy");
        }
        tb->ptrs = arr;
      }
    });
    C->ev("array_of_pointers_copy direct=%d -> %s", (int)direct, oname(o));
    if (o != OK) {
      if (!C->stop)
        C->violate("C04", "array_of_pointers_copy_fails@array_of_pointers_copy", "%s: %s", oname(o), g_last_abort_msg.c_str());
      return;
    }
    C->probe("array_of_pointers_copied");
    PT after[3];
    memcpy(after, st.impl()->gptr(boff + (uint32_t)offsetof(GNode, ptrs)), sizeof after);
    for (int i = 0; i < 3 && !C->stop; i++) {
      PT want = direct ? before[i] : (before[i] == 0 ? (PT)0 : (PT)(before[i] & (st.size() - 1)));
      if (after[i] != want)
        C->violate("C04",
                   std::string((before[i] == 0) != (after[i] == 0) ? "null_not_preserved@" : "wrong_representation@") + "array_of_pointers_copy",
                   "element %d: source representation %llu, destination holds %llu",
                   i,
                   (unsigned long long)before[i],
                   (unsigned long long)after[i]);
    }
  }

  // *pp = *qq inside one sandbox: the representation is copied as it is
  void do_vol_assign(const Op& op)
  {
    Handle* d = pick(op.a[0], T_PINT);
    Handle* q = pick(op.a[1], T_PINT);
    if (!d || !q || d->sbx != q->sbx || !fits(*d, sizeof(PT)) || !fits(*q, sizeof(PT)))
      return;
    int s = d->sbx;
    SbxState& st = S[(size_t)s];
    auto& pd = std::get<TP<int*>>(d->v);
    auto& pq = std::get<TP<int*>>(q->v);
    PT src;
    memcpy(&src, st.impl()->gptr((uint32_t)(haddr(*q) - st.base())), sizeof src);
    Outcome o = attempt([&] { *pd = *pq; });
    C->ev("volatile_to_volatile_assign -> %s", oname(o));
    if (o != OK) {
      C->violate("C04", "volatile_assign_fails@volatile_to_volatile_assign", "%s", g_last_abort_msg.c_str());
      return;
    }
    PT dst;
    memcpy(&dst, st.impl()->gptr((uint32_t)(haddr(*d) - st.base())), sizeof dst);
    if (dst != src)
      C->violate("C04", "wrong_representation@volatile_to_volatile_assign", "source cell %llu, destination cell %llu", (unsigned long long)src, (unsigned long long)dst);
  }

  // function pointers in sandbox memory: a callback's entry point and a hostile index read back
  void do_fnptr_cell(const Op& op)
  {
    int s = pick_sbx(op.a[0]);
    SbxState& st = S[(size_t)s];
    if (st.state != 1 || !st.cbptr || st.cbptr->is_unregistered())
      return;
    using Fn = char* (*)(char*);
    auto cell = rlbox::sandbox_reinterpret_cast<Fn*>(st.pcell);
    uint32_t celloff = (uint32_t)((uintptr_t)st.pcell.UNSAFE_unverified() - st.base());
    PT got = 0;
    Outcome o = attempt([&] { *cell = *st.cbptr; });
    memcpy(&got, st.impl()->gptr(celloff), sizeof got);
    PT want = (PT)st.cbptr->UNSAFE_sandboxed(*st.sb);
    C->ev("function_pointer_cell store -> %s", oname(o));
    if (o != OK || got != want) {
      C->violate("C04", "wrong_representation@function_pointer_cell", "callback stored into a cell: guest sees %llu, entry point is %llu", (unsigned long long)got, (unsigned long long)want);
      return;
    }
    // the guest replaces it by an arbitrary index; reading it back must give exactly that representation
    PT bits = (PT)(uint32_t)op.a[1];
    memcpy(st.impl()->gptr(celloff), &bits, sizeof bits);
    rlbox::tainted<Fn, Sbx> f = nullptr;
    Outcome o2 = attempt([&] { f = *cell; });
    if (o2 != OK)
      return;
    PT back = (PT)f.UNSAFE_sandboxed(*st.sb);
    if (back != bits)
      C->violate("C04", "wrong_representation@function_pointer_cell", "guest stored function index %llu, round trip gives %llu", (unsigned long long)bits, (unsigned long long)back);
    C->probe("function_pointer_round_trip");
    // ... and a tainted function pointer stored back into (another) cell keeps its representation, null included
    if (!C->stop) {
      auto cell2 = rlbox::sandbox_reinterpret_cast<Fn*>(st.scratch);
      uint32_t cell2off = (uint32_t)((uintptr_t)st.scratch.UNSAFE_unverified() - st.base());
      PT junk = (PT)0x7777;
      memcpy(st.impl()->gptr(cell2off), &junk, sizeof junk);
      Outcome o3 = attempt([&] { *cell2 = f; });
      PT got2 = 0;
      memcpy(&got2, st.impl()->gptr(cell2off), sizeof got2);
      if (o3 != OK || got2 != bits)
        C->violate("C04", std::string(bits == 0 ? "null_not_preserved@" : "wrong_representation@") + "function_pointer_cell", "tainted function pointer with representation %llu stored into a cell: cell holds %llu (%s)", (unsigned long long)bits, (unsigned long long)got2, oname(o3));
    }
  }

  // Static arrays long enough that an index of a narrow type can be negative, or wrap, before it reaches the extent.
  // The table sits at the first usable bytes, the last bytes or the middle of the region: an accepted index outside
  // [0, extent) at either edge is a pointer outside the sandbox (C03, checked by push()).
  template<class F>
  void with_index_type(int s, int nt, int wrap, int64_t v, F&& f)
  {
    switch (nt) {
      case 0:
        with_wrap<signed char>(s, wrap, v, f);
        break;
      case 1:
        with_wrap<char>(s, wrap, v, f);
        break;
      case 2:
        with_wrap<unsigned char>(s, wrap, v, f);
        break;
      case 3:
        with_wrap<short>(s, wrap, v, f);
        break;
      case 4:
        with_wrap<unsigned short>(s, wrap, v, f);
        break;
      case 5:
        with_wrap<int>(s, wrap, v, f);
        break;
      case 6:
        with_wrap<unsigned>(s, wrap, v, f);
        break;
      case 7:
        with_wrap<long>(s, wrap, v, f);
        break;
      case 8:
        with_wrap<long long>(s, wrap, v, f);
        break;
      default:
        with_wrap<size_t>(s, wrap, v, f);
        break;
    }
  }
  void do_table_index(const Op& op)
  {
    int s = pick_sbx(op.a[0]);
    SbxState& st = S[(size_t)s];
    if (st.state != 1)
      return;
    bool big = (op.a[1] & 1) && st.size() >= 2 * sizeof(SimBig);
    size_t tsz = big ? sizeof(SimBig) : sizeof(SimTable);
    if (st.size() < tsz + 64)
      return;
    int place = (int)(((uint64_t)op.a[1] >> 1) % 3);
    uintptr_t at = place == 0 ? st.base() + 8 : place == 1 ? st.base() + st.size() - tsz : st.base() + ((st.size() / 2) & ~(uintptr_t)7);
    int nt = (int)((uint64_t)op.a[2] % 10);
    int wrap = (int)((uint64_t)op.a[4] % 3);
    if (nt <= 4)
      C->probe("static_array_indexed_with_narrow_integer_type");
    // an index that lives in sandbox memory may change between two reads of it
    static const int64_t kHostile[] = { 1LL << 24, -3, 300, 66001, 70000, 0x7fffffff };
    operand_fault.k = (uint64_t)op.a[5] % 4;
    operand_fault.value = kHostile[((uint64_t)op.a[5] / 4) % 6];
    Outcome o = attempt([&] {
      if (big) {
        auto tp = st.sb->UNSAFE_accept_pointer(reinterpret_cast<SimBig*>(at));
        with_index_type(s, nt, wrap, op.a[3], [&](auto& i) { push<char>(s, &tp->c[i], "table_index"); });
      } else {
        auto tp = st.sb->UNSAFE_accept_pointer(reinterpret_cast<SimTable*>(at));
        with_index_type(s, nt, wrap, op.a[3], [&](auto& i) { push<int>(s, &tp->tbl[i], "table_index"); });
      }
    });
    operand_fault.k = 0;
    C->ev("table_index big=%d place=%d type=%d wrap=%d i=%lld -> %s", (int)big, place, nt, wrap, (long long)op.a[3], oname(o));
  }

  // Equality of pointers held in sandbox memory (of one sandbox or of two) and of their tainted copies is the equality
  // of the addresses they translate to, each relative to its own sandbox (C04).
  void do_compare(const Op& op)
  {
    int s1 = pick_sbx(op.a[0]), s2 = pick_sbx(op.a[1]);
    if (S[(size_t)s1].state != 1 || S[(size_t)s2].state != 1)
      return;
    SbxState& a = S[(size_t)s1];
    SbxState& b = S[(size_t)s2];
    rlbox::tainted<int**, Sbx> ca = a.pcell;
    rlbox::tainted<int**, Sbx> cb = s1 != s2 ? b.pcell : rlbox::sandbox_reinterpret_cast<int**>(a.scratch);
    uint32_t offa = (uint32_t)((uintptr_t)ca.UNSAFE_unverified() - a.base());
    uint32_t offb = (uint32_t)((uintptr_t)cb.UNSAFE_unverified() - b.base());
    PT ra = (PT)(uint32_t)op.a[2];
    PT rb = op.a[3] < 0 ? ra : (PT)(uint32_t)op.a[3];
    memcpy(a.impl()->gptr(offa), &ra, sizeof ra);
    memcpy(b.impl()->gptr(offb), &rb, sizeof rb);
    uintptr_t ha = ra == 0 ? 0 : a.base() + (ra & (a.size() - 1));
    uintptr_t hb = rb == 0 ? 0 : b.base() + (rb & (b.size() - 1));
    if (s1 != s2)
      C->probe("pointers_of_two_sandboxes_compared");
    if (s1 != s2 && ra == rb && ra != 0)
      C->probe("equal_representations_in_two_sandboxes_compared");
    int form = (int)((uint64_t)op.a[4] % 10);
    bool got = false, want = false;
    Outcome o = attempt([&] {
      rlbox::tainted<int*, Sbx> ta = nullptr, tb = nullptr;
      if (form >= 2) {
        ta = *ca;
        tb = *cb;
      }
      switch (form) {
        case 0:
          got = (*ca == *cb).unverified_safe_because("simulation oracle");
          want = ha == hb;
          break;
        case 1:
          got = (*ca != *cb).unverified_safe_because("simulation oracle");
          want = ha != hb;
          break;
        case 2:
          got = (ta == *cb).unverified_safe_because("simulation oracle");
          want = ha == hb;
          break;
        case 3:
          got = (*ca != tb).unverified_safe_because("simulation oracle");
          want = ha != hb;
          break;
        case 4:
          got = (ta == tb).unverified_safe_because("simulation oracle");
          want = ha == hb;
          break;
        case 5:
          got = (ta != tb).unverified_safe_because("simulation oracle");
          want = ha != hb;
          break;
        case 6:
          got = (*ca == nullptr).unverified_safe_because("simulation oracle");
          want = ha == 0;
          break;
        case 7:
          got = ta == nullptr;
          want = ha == 0;
          break;
        case 8:
          got = (*cb != nullptr).unverified_safe_because("simulation oracle");
          want = hb != 0;
          break;
        default:
          got = !tb;
          want = hb == 0;
          break;
      }
    });
    C->ev("pointer_compare form=%d sandboxes %d/%d reps %llu/%llu -> %s %d", form, s1, s2, (unsigned long long)ra, (unsigned long long)rb, oname(o), (int)got);
    if (o != OK) {
      C->violate("C04", "comparison_fails@pointer_compare", "comparing pointer cells of live sandboxes #%d and #%d: %s: %s", s1, s2, oname(o), g_last_abort_msg.c_str());
      return;
    }
    if (got != want)
      C->violate("C04",
                 std::string(s1 != s2 ? "compared_without_per_sandbox_translation@" : (ra == 0 || rb == 0) ? "null_not_preserved@" : "wrong_result@") + "pointer_compare",
                 "form %d: cells hold %llu (sandbox #%d) and %llu (sandbox #%d), i.e. addresses %s: result %d",
                 form,
                 (unsigned long long)ra,
                 s1,
                 (unsigned long long)rb,
                 s2,
                 ha == hb ? "equal" : "different",
                 (int)got);
  }

  // A struct with a struct-typed field: field addresses, loads and stores of the pointer inside the inner struct,
  // and whole-struct copies sandbox -> application -> sandbox (conversions recurse into the inner struct).
  void do_nested(const Op& op)
  {
    int s = pick_sbx(op.a[0]);
    SbxState& st = S[(size_t)s];
    if (st.state != 1 || st.size() < 4096)
      return;
    // two objects at fixed, disjoint, 8-aligned places of the region (the second one on its last bytes)
    uint32_t off1 = (uint32_t)(st.size() / 2 + 64), off2 = (uint32_t)(st.size() - sizeof(GOuter));
    off2 &= ~(uint32_t)7;
    GOuter g;
    std::memset(&g, 0, sizeof g);
    g.x = (int32_t)op.a[4];
    g.in.a = (int32_t)(op.a[4] >> 20);
    g.in.p = (PT)(uint32_t)op.a[1];
    g.node = (PT)(uint32_t)op.a[2];
    g.y = -7;
    memcpy(st.impl()->gptr(off1), &g, sizeof g);
    C->fired("F1_hostile_cell_value");
    auto want = [&](PT rep) -> uintptr_t { return rep == 0 ? 0 : st.base() + (rep & (st.size() - 1)); };
    int which = (int)((uint64_t)op.a[3] % 6);
    uintptr_t got_p = 1, got_node = 1;
    long got_x = 0, got_y = 0;
    int got_a = 0;
    GOuter after;
    std::memset(&after, 0, sizeof after);
    Outcome o = attempt([&] {
      auto o1 = st.sb->UNSAFE_accept_pointer(reinterpret_cast<SimOuter*>(st.base() + off1));
      auto o2 = st.sb->UNSAFE_accept_pointer(reinterpret_cast<SimOuter*>(st.base() + off2));
      switch (which) {
        case 0: // addresses of fields of the inner struct
          push<int>(s, &o1->in.a, "nested_struct");
          push<int*>(s, rlbox::sandbox_reinterpret_cast<int**>(&o1->in.p), "nested_struct");
          push<long>(s, &o2->y, "nested_struct");
          break;
        case 1: { // loads through the inner struct
          TP<char> p = o1->in.p;
          TP<SimNode> n = o1->node;
          got_p = (uintptr_t)p.UNSAFE_unverified();
          got_node = (uintptr_t)n.UNSAFE_unverified();
          push<char>(s, p, "nested_struct");
          push<SimNode>(s, n, "nested_struct");
          break;
        }
        case 2: { // store into the inner struct: a pointer, then null
          TP<char> v = rlbox::sandbox_reinterpret_cast<char*>(st.scratch);
          o1->in.p = v;
          memcpy(&after, st.impl()->gptr(off1), sizeof after);
          if (after.in.p != (PT)((uintptr_t)v.UNSAFE_unverified() - st.base()))
            C->violate("C04", "wrong_representation@nested_struct", "pointer stored into a field of an inner struct");
          o1->in.p = nullptr;
          memcpy(&after, st.impl()->gptr(off1), sizeof after);
          if (after.in.p != 0)
            C->violate("C04", "null_not_preserved@nested_struct", "null stored into a field of an inner struct reads %llu", (unsigned long long)after.in.p);
          break;
        }
        case 3: { // inner struct copied out on its own
          rlbox::tainted<SimInner, Sbx> in = o1->in;
          got_p = (uintptr_t)in.p.UNSAFE_unverified();
          got_a = in.a.UNSAFE_unverified();
          got_node = want(g.node);
          if (got_a != g.in.a)
            C->violate("C04", "wrong_value@nested_struct", "int field of the inner struct");
          push<char>(s, in.p, "nested_struct");
          break;
        }
        default: { // whole struct out and back in (to the other object)
          rlbox::tainted<SimOuter, Sbx> t = *o1;
          got_p = (uintptr_t)t.in.p.UNSAFE_unverified();
          got_node = (uintptr_t)t.node.UNSAFE_unverified();
          got_x = t.x.UNSAFE_unverified();
          got_y = t.y.UNSAFE_unverified();
          got_a = t.in.a.UNSAFE_unverified();
          if (got_x != g.x || got_y != g.y || got_a != g.in.a)
            C->violate("C04", "wrong_value@nested_struct", "scalar fields of a struct with an inner struct: x %ld/%d y %ld/%d a %d/%d", got_x, g.x, got_y, g.y, got_a, g.in.a);
          push<char>(s, t.in.p, "nested_struct");
          push<SimNode>(s, t.node, "nested_struct");
          if (which == 5 && !C->stop) {
            *o2 = t;
            memcpy(&after, st.impl()->gptr(off2), sizeof after);
            auto norm = [&](PT rep) { return rep == 0 ? (PT)0 : (PT)(rep & (st.size() - 1)); };
            if (after.in.p != norm(g.in.p) || after.node != norm(g.node) || after.x != g.x || after.y != g.y || after.in.a != g.in.a)
              C->violate("C04",
                         std::string((after.in.p == 0) != (g.in.p == 0) || (after.node == 0) != (g.node == 0) ? "null_not_preserved@" : "wrong_representation@") + "nested_struct",
                         "struct with an inner struct copied sandbox->app->sandbox: in.p %llu -> %llu, node %llu -> %llu",
                         (unsigned long long)g.in.p,
                         (unsigned long long)after.in.p,
                         (unsigned long long)g.node,
                         (unsigned long long)after.node);
            C->probe("struct_copied_through_application");
          }
          break;
        }
      }
    });
    C->ev("nested_struct %d reps %llu/%llu -> %s", which, (unsigned long long)g.in.p, (unsigned long long)g.node, oname(o));
    C->probe("struct_with_inner_struct_accessed");
    if (C->stop)
      return;
    if (o != OK) {
      C->violate("C04", "access_fails@nested_struct", "access %d to a struct inside the region: %s: %s", which, oname(o), g_last_abort_msg.c_str());
      return;
    }
    if (which == 1 || which == 3 || which >= 4) {
      if (got_p != want(g.in.p) || (which != 3 && got_node != want(g.node)))
        C->violate("C04",
                   std::string((got_p == 0) != (g.in.p == 0) || (which != 3 && (got_node == 0) != (g.node == 0)) ? "null_not_preserved@" : "wrong_address@") + "nested_struct",
                   "pointer fields read through a struct with an inner struct (access %d)",
                   which);
    }
  }

  void run(const Plan& p, Ctx& c) override
  {
    C = &c;
    run_begin(&c);
    const int misuse_before = Sbx::lifecycle_misuse_count();
    g_glog.clear();
    g_cb_calls = 0;
    Sbx::cfg = Sbx::Config();
    int logsz = p.cfg.size() > 0 ? (int)p.cfg[0] : 12;
    if (logsz < 12)
      logsz = 12;
    if (logsz > 20)
      logsz = 20;
    Sbx::cfg.size = (size_t)1 << logsz;
    registry = p.cfg.size() > 1 && p.cfg[1];
    Sbx::cfg.registry = registry;
    int nsbx = p.cfg.size() > 2 ? (int)p.cfg[2] : 1;
    if (nsbx < 1)
      nsbx = 1;
    if (nsbx > 4)
      nsbx = 4;
    Sbx::cfg.slots = p.cfg.size() > 3 && p.cfg[3] >= 1 && p.cfg[3] <= 64 ? (int)p.cfg[3] : 8;
    Sbx::n_registry = 0;
    Sbx::cfg.mmu = p.cfg.size() > 4 && p.cfg[4] && logsz <= 16;
    Sbx::cfg.reuse = p.cfg.size() > 5 && p.cfg[5];
    Sbx::cfg.total_as_mask = p.cfg.size() > 6 && (p.cfg[6] & 1);
    Sbx::cfg.null_to_finder = p.cfg.size() > 6 && (p.cfg[6] & 2);
    if (Sbx::cfg.total_as_mask)
      c.probe("backend_reports_total_memory_as_mask");
    c.ev("cfg size=2^%d registry=%d nsbx=%d slots=%d mmu=%d", logsz, (int)registry, nsbx, Sbx::cfg.slots, (int)Sbx::cfg.mmu);
    S.clear();
    H.clear();
    H.reserve(64); // handles are referenced by pointer while new ones are pushed
    S.resize((size_t)nsbx);
    for (auto& st : S)
      st.sb = std::make_unique<Sandbox>();

    for (size_t i = 0; i < p.ops.size() && !c.stop; i++) {
      const Op& op = p.ops[i];
      c.cur_op = (int)i;
      c.st.steps++;
      c.st.opcount[kKind[op.kind]]++;
      c.ev("op %zu %s %lld %lld %lld %lld", i, kKind[op.kind], (long long)op.a[0], (long long)op.a[1], (long long)op.a[2], (long long)op.a[3]);
      g_fault.clear();
      switch (op.kind) {
        case L_CREATE:
          do_create(op);
          break;
        case L_DESTROY:
          do_destroy(op);
          break;
        case L_MALLOC:
          do_malloc(op);
          break;
        case L_FREE:
          do_free(op);
          break;
        case L_FREE_DEAD:
          do_free_dead(op);
          break;
        case L_REGISTER:
          do_register(op);
          break;
        case L_UNREGISTER:
          do_unregister(op, false);
          break;
        case L_DROP_OWNER:
          do_unregister(op, true);
          break;
        case L_INVOKE_ID:
          do_invoke_id(op);
          break;
        case L_PROBE_REGISTRY:
          do_probe_registry(op);
          break;
        case C_ACCEPT:
        case C_ASSIGN_T:
        case C_ASSIGN_V:
          do_c02(op);
          break;
        case P_ADD:
        case P_SUB:
        case P_ADDEQ:
        case P_SUBEQ:
        case P_INDEX_ADDR:
          do_arith(op);
          break;
        case P_INC:
          do_incdec(op);
          break;
        case P_DEREF_ADDR:
          do_deref_addr(op);
          break;
        case P_FIELD_ADDR:
          do_field_addr(op);
          break;
        case P_LOAD:
          do_load(op);
          break;
        case P_LOAD_FIELD:
          do_load_field(op, false);
          break;
        case P_LOAD_STRUCT:
          do_load_field(op, true);
          break;
        case P_STORE:
          do_store(op);
          break;
        case P_STORE_FIELD:
          do_store_field(op);
          break;
        case P_STORE_STRUCT:
          do_store_struct(op);
          break;
        case P_CAST:
          do_cast(op);
          break;
        case P_OPAQUE:
          do_opaque(op);
          break;
        case G_WRITE_CELL:
          do_guest_write(op);
          break;
        case P_APP_PTR:
          do_app_ptr(op);
          break;
        case P_GRANT:
          do_grant(op);
          break;
        case I_ECHO:
          do_echo(op);
          break;
        case I_RETPTR:
          do_retptr(op);
          break;
        case I_CALLBACK:
          do_callback(op);
          break;
        case V_ARITH:
          do_volatile(op);
          break;
        case P_ARRAY_COPY:
          do_array_copy(op);
          break;
        case P_VOL_ASSIGN:
          do_vol_assign(op);
          break;
        case P_FNPTR_CELL:
          do_fnptr_cell(op);
          break;
        case P_TABLE_INDEX:
          do_table_index(op);
          break;
        case P_COMPARE:
          do_compare(op);
          break;
        case P_NESTED:
          do_nested(op);
          break;
        case L_RESET: {
          // reset_sandbox() on a created sandbox changes nothing about its place in the lifecycle or in the registry
          int s = pick_sbx(op.a[0]);
          if (S[(size_t)s].state != 1)
            break;
          Outcome o = attempt([&] { S[(size_t)s].sb->reset_sandbox(); });
          c.ev("reset #%d -> %s", s, oname(o));
          c.probe("sandbox_reset");
          if (o != OK)
            c.violate("C14", "reset_of_created_sandbox_aborts@reset", "%s", g_last_abort_msg.c_str());
          break;
        }
      }
      int live = 0;
      for (auto& st : S)
        live += st.state == 1;
      if (live >= 2)
        c.probe("two_or_more_live_sandboxes");
    }
    // teardown: owners first, then sandboxes, then the objects
    H.clear();
    for (auto& st : S) {
      attempt([&] {
        st.cbptr.reset();
        // owners of old incarnations while a new incarnation lives are leaked, not destroyed (see do_unregister)
        for (int f = 0; f < 2; f++)
          st.own[f].reset();
        st.old_owners.clear();
      });
      if (st.state == 1)
        attempt([&] { st.sb->destroy_sandbox(); });
    }
    S.clear();
    if (Sbx::lifecycle_misuse_count() != misuse_before && !c.stop)
      c.violate("C14", "backend_asked_to_create_an_existing_instance_or_destroy_a_missing_one@run", "%d requests reached the backend for an instance in the wrong state", Sbx::lifecycle_misuse_count() - misuse_before);
    run_end();
    C = nullptr;
  }
};

int main(int argc, char** argv)
{
  libs().push_back(make_lib<0>());
  libs().push_back(make_lib<1>());
  install_crash_handlers("replays");
  mmu::install(crash_handler);
  MemWorld w;
  return sim_main(w, argc, argv);
}
