// World `invoke` — property C11.
// Application <-> guest two-party exchange over the sim backend (foreign ABI,
// two libraries exporting the same names in different table order), plus the
// real dylib backend loading two shared objects, plus noop static calls.
#include "../sim/world_common.hpp"
#include "rlbox_dylib_sandbox.hpp"
#include "rlbox_noop_sandbox.hpp"
#include <cmath>
#include <memory>

using namespace sim;
using Sbx = rlbox::rlbox_sim_sandbox;
using Sandbox = rlbox::rlbox_sandbox<Sbx>;
using DSbx = rlbox::rlbox_dylib_sandbox;
using NSbx = rlbox::rlbox_noop_sandbox;
template<class T>
using TT = rlbox::tainted<T, Sbx>;

#ifndef GUESTLIB_DIR
#  define GUESTLIB_DIR "build"
#endif

enum Color
{
  RED = 0,
  GREEN = 5,
  HUGE_C = 0x7fffffff,
  NEG_C = -7
};
// an enumeration whose underlying type is wider than int: the same type on both sides of the boundary
enum Wide64 : long long
{
  W_ZERO = 0,
  W_SMALL = 7,
  W_HIGHBIT = 0x80000000LL,
  W_BIG = 0x100000002LL,
  W_NEG = -0x100000005LL,
  W_MIN = INT64_MIN
};
struct SimPair
{
  long a;
  char* p;
  short s;
  unsigned long u;
};
#if defined(__clang__)
#  pragma clang diagnostic ignored "-Wgnu-zero-variadic-macro-arguments"
#endif
#define sandbox_fields_reflection_invlib_class_SimPair(f, g, ...)              \
  f(long, a, FIELD_NORMAL, ##__VA_ARGS__) g()                                  \
  f(char*, p, FIELD_NORMAL, ##__VA_ARGS__) g()                                 \
  f(short, s, FIELD_NORMAL, ##__VA_ARGS__) g()                                 \
  f(unsigned long, u, FIELD_NORMAL, ##__VA_ARGS__) g()
// a struct whose guest image has the same size and alignment as the host struct, but not the same layout
struct SimPair3
{
  char* p;
  long long x;
  long a;
  int pad_to_guest_size[2];
};
#define sandbox_fields_reflection_invlib_class_SimPair3(f, g, ...)             \
  f(char*, p, FIELD_NORMAL, ##__VA_ARGS__) g()                                 \
  f(long long, x, FIELD_NORMAL, ##__VA_ARGS__) g()                             \
  f(long, a, FIELD_NORMAL, ##__VA_ARGS__) g()                                  \
  f(int[2], pad_to_guest_size, FIELD_NORMAL, ##__VA_ARGS__) g()
// a struct with array fields of integer types that are narrower in the guest: returned by value from a callback
struct SimCounters
{
  unsigned long u[2];
  long s[2];
  unsigned short w[2];
};
#define sandbox_fields_reflection_invlib_class_SimCounters(f, g, ...)          \
  f(unsigned long[2], u, FIELD_NORMAL, ##__VA_ARGS__) g()                      \
  f(long[2], s, FIELD_NORMAL, ##__VA_ARGS__) g()                               \
  f(unsigned short[2], w, FIELD_NORMAL, ##__VA_ARGS__) g()
#define sandbox_fields_reflection_invlib_allClasses(f, ...) f(SimPair, invlib, ##__VA_ARGS__) f(SimPair3, invlib, ##__VA_ARGS__) f(SimCounters, invlib, ##__VA_ARGS__)
rlbox_load_structs_from_library(invlib);
using GPair = rlbox::Sbx_invlib_SimPair<Sbx>;
static_assert(sizeof(GPair) == 16);
using GPair3 = rlbox::Sbx_invlib_SimPair3<Sbx>;
using GCounters = rlbox::Sbx_invlib_SimCounters<Sbx>;
static_assert(sizeof(GCounters) == 20);
static_assert(sizeof(GPair3) == sizeof(SimPair3) && alignof(GPair3) == alignof(SimPair3));

// application-side view of the library's interface (never defined for the sim backend)
extern "C" {
long f_ints(char c, short s, int i, long l, long long ll, unsigned long ul, size_t z);
double f_fp(float f, double d);
Color f_enum(Color c, bool b);
char* f_ptrs(char* p, int* q, void* v);
long f_plong(long* p, char** pp, unsigned long* up); // pointees whose alignment in the guest (4) is smaller than the application's (8)
int f_fn(long (*cb)(long, unsigned), void (*gf)(void));
long f_struct(SimPair pr);
long f_struct3(SimPair3 pr);
long f_callS(long (*cb)(SimPair), SimPair pr);
Wide64 f_callE(Wide64 (*cb)(Wide64), Wide64 v);
long f_callR(SimCounters (*cb)(long), long a);
int f_image_decoder_pipeline_process_header_block(int v);
int f_image_decoder_pipeline_process_pixels_block(int v);
SimPair f_ret_struct(long a);
void f_void(void);
unsigned long f_many(int a0, int a1, int a2, int a3, int a4, int a5, int a6, int a7, int a8, int a9, int a10, unsigned a11);
unsigned long f_u(unsigned long ul, size_t z, unsigned long long ull, unsigned short us);
short f_rs(short v);
unsigned char f_ruc(unsigned char v, signed char w);
long long f_rll(long long v, unsigned v2);
bool f_rb(bool v);
float f_rf(float v);
typedef void (*fnret_t)(void);
fnret_t f_fnret(void (*gf)(void));
unsigned long f_callc(unsigned long (*cb)(char, bool, long long, float, Color, unsigned short, void (*)(void), long),
                      char c,
                      bool b,
                      long long ll,
                      float f,
                      Color e,
                      unsigned short us,
                      void (*fp)(void),
                      long l);
// real C library (noop static / dylib)
int g_lib_id(void);
int g_lib_id_indirect(void);
long g_add3(long a, int b, unsigned short c);
double g_call_d(double (*cb)(double, float), double a, float b);
long long g_call_ll(long long (*cb)(long long, unsigned char), long long a, unsigned char b);
float g_call_f(float (*cb)(float), float a);
unsigned long g_call_ul(unsigned long (*cb)(unsigned long, short), unsigned long a, short b);
}

enum FnId
{
  FN_INTS,
  FN_FP,
  FN_ENUM,
  FN_PTRS,
  FN_FN,
  FN_STRUCT,
  FN_RET_STRUCT,
  FN_VOID,
  FN_MANY,
  FN_U,
  FN_RS,
  FN_RUC,
  FN_RLL,
  FN_RB,
  FN_RF,
  FN_FNRET,
  FN_CALLC,
  FN_STRUCT3,
  FN_CALLS,
  FN_CALLE,
  FN_PLONG,
  FN_CALLR,
  FN_LONG1,
  FN_LONG2,
  FN_COUNT
};
static const char* kFnName[] = { "f_ints", "f_fp", "f_enum", "f_ptrs", "f_fn", "f_struct", "f_ret_struct", "f_void", "f_many", "f_u",
                                 "f_rs", "f_ruc", "f_rll", "f_rb", "f_rf", "f_fnret", "f_callc", "f_struct3", "f_callS", "f_callE", "f_plong", "f_callR",
                                 "f_image_decoder_pipeline_process_header_block", "f_image_decoder_pipeline_process_pixels_block" };

struct GuestRec
{
  int fn, lib, inst;
  std::vector<uint64_t> args; // raw bits as the guest saw them
};
static std::vector<GuestRec> g_glog;
static bool g_callc_override, g_callc_returned;
static uint32_t g_callc_fp, g_callc_guest_got;
static int32_t g_callc_l;
static long long g_calle_v, g_calle_guest_got;
static struct
{
  uint32_t u[2];
  int32_t s[2];
  uint16_t w[2];
} g_callr_got;
static uint64_t g_result_bits; // what the guest returns (interpreted per function)
static void grec(int fn, int lib, std::vector<uint64_t> args)
{
  Sbx* cur = Sbx::current();
  g_glog.push_back(GuestRec{ fn, lib, cur ? cur->inst_id : -1, std::move(args) });
  bev("guest lib%d %s (%zu args)", lib, kFnName[fn], g_glog.back().args.size());
}
static uint64_t dbits(double d)
{
  uint64_t u;
  memcpy(&u, &d, 8);
  return u;
}
static uint64_t fbits(float f)
{
  uint32_t u;
  memcpy(&u, &f, 4);
  return u;
}

template<int LIB>
struct G
{
  static int32_t ints(char c, int16_t s, int32_t i, int32_t l, int64_t ll, uint32_t ul, uint32_t z)
  {
    grec(FN_INTS, LIB, { (uint64_t)(int64_t)c, (uint64_t)(int64_t)s, (uint64_t)(int64_t)i, (uint64_t)(int64_t)l, (uint64_t)ll, ul, z });
    return (int32_t)g_result_bits;
  }
  static double fp(float f, double d)
  {
    grec(FN_FP, LIB, { fbits(f), dbits(d) });
    double r;
    memcpy(&r, &g_result_bits, 8);
    return r;
  }
  static Color en(Color c, bool b)
  {
    grec(FN_ENUM, LIB, { (uint64_t)(int64_t)(int)c, (uint64_t)b });
    return (Color)(int32_t)g_result_bits;
  }
  static uint32_t ptrs(uint32_t p, uint32_t q, uint32_t v)
  {
    grec(FN_PTRS, LIB, { p, q, v });
    return (uint32_t)g_result_bits;
  }
  static int32_t callR(uint32_t cb, int32_t a)
  {
    grec(FN_CALLR, LIB, { cb, (uint64_t)(int64_t)a });
    GCounters r = Sbx::guest_call<GCounters, int32_t>(cb, a);
    memcpy(&g_callr_got, &r, sizeof r);
    g_callc_returned = true;
    return 1;
  }
  static int32_t plong(uint32_t p, uint32_t pp, uint32_t up)
  {
    grec(FN_PLONG, LIB, { p, pp, up });
    return (int32_t)g_result_bits;
  }
  static int32_t fn(uint32_t cb, uint32_t gf)
  {
    grec(FN_FN, LIB, { cb, gf });
    return (int32_t)g_result_bits;
  }
  static int32_t st(GPair pr)
  {
    grec(FN_STRUCT, LIB, { (uint64_t)(int64_t)pr.a, pr.p, (uint64_t)(int64_t)pr.s, pr.u });
    return (int32_t)g_result_bits;
  }
  static Wide64 callE(uint32_t cb, Wide64 v)
  {
    grec(FN_CALLE, LIB, { cb, (uint64_t)(long long)v });
    if (g_callc_override)
      v = (Wide64)g_calle_v; // the guest passes on whatever it likes
    Wide64 r = Sbx::guest_call<Wide64, Wide64>(cb, v);
    g_calle_guest_got = (long long)r;
    g_callc_returned = true;
    return r;
  }
  // hands the struct it received on to a callback, by value, after the guest has put its own pointer / long into it
  static int32_t callS(uint32_t cb, GPair pr)
  {
    grec(FN_CALLS, LIB, { cb, (uint64_t)(int64_t)pr.a, pr.p, (uint64_t)(int64_t)pr.s, pr.u });
    if (g_callc_override) {
      pr.p = g_callc_fp;
      pr.a = g_callc_l;
    }
    int32_t r = Sbx::guest_call<int32_t, GPair>(cb, pr);
    g_callc_guest_got = (uint32_t)r;
    g_callc_returned = true;
    return r;
  }
  static int32_t long1(int32_t v)
  {
    grec(FN_LONG1, LIB, { (uint64_t)(int64_t)v });
    return 1000 + v;
  }
  static int32_t long2(int32_t v)
  {
    grec(FN_LONG2, LIB, { (uint64_t)(int64_t)v });
    return 2000 + v;
  }
  static int32_t st3(GPair3 pr)
  {
    grec(FN_STRUCT3, LIB, { pr.p, (uint64_t)pr.x, (uint64_t)(int64_t)pr.a, (uint64_t)(int64_t)pr.pad_to_guest_size[0], (uint64_t)(int64_t)pr.pad_to_guest_size[1] });
    return (int32_t)g_result_bits;
  }
  static GPair ret_st(int32_t a)
  {
    grec(FN_RET_STRUCT, LIB, { (uint64_t)(int64_t)a });
    GPair r;
    r.a = (int32_t)g_result_bits;
    r.p = (uint32_t)(g_result_bits >> 32);
    r.s = (int16_t)(g_result_bits >> 16);
    r.u = (uint32_t)(g_result_bits * 2654435761u);
    return r;
  }
  static void vd() { grec(FN_VOID, LIB, {}); }
  static uint32_t many(int32_t a0, int32_t a1, int32_t a2, int32_t a3, int32_t a4, int32_t a5, int32_t a6, int32_t a7, int32_t a8, int32_t a9, int32_t a10, uint32_t a11)
  {
    grec(FN_MANY,
         LIB,
         { (uint64_t)(int64_t)a0,
           (uint64_t)(int64_t)a1,
           (uint64_t)(int64_t)a2,
           (uint64_t)(int64_t)a3,
           (uint64_t)(int64_t)a4,
           (uint64_t)(int64_t)a5,
           (uint64_t)(int64_t)a6,
           (uint64_t)(int64_t)a7,
           (uint64_t)(int64_t)a8,
           (uint64_t)(int64_t)a9,
           (uint64_t)(int64_t)a10,
           a11 });
    return (uint32_t)g_result_bits;
  }
  static uint32_t u(uint32_t ul, uint32_t z, uint64_t ull, uint16_t us)
  {
    grec(FN_U, LIB, { ul, z, ull, us });
    return (uint32_t)g_result_bits;
  }
  static int16_t rs(int16_t v)
  {
    grec(FN_RS, LIB, { (uint64_t)(int64_t)v });
    return (int16_t)g_result_bits;
  }
  static unsigned char ruc(unsigned char v, signed char w)
  {
    grec(FN_RUC, LIB, { v, (uint64_t)(int64_t)w });
    return (unsigned char)g_result_bits;
  }
  static int64_t rll(int64_t v, uint32_t v2)
  {
    grec(FN_RLL, LIB, { (uint64_t)v, v2 });
    return (int64_t)g_result_bits;
  }
  static bool rb(bool v)
  {
    grec(FN_RB, LIB, { (uint64_t)v });
    return (g_result_bits & 1) != 0;
  }
  // calls the callback it is given with what it received, except that the last two arguments (function index, long)
  // are replaced by the guest's own choice when g_callc_override is set
  static uint32_t callc(uint32_t cb, char c, bool b, int64_t ll, float f, Color e, uint16_t us, uint32_t fp, int32_t l)
  {
    grec(FN_CALLC, LIB, { cb, (uint64_t)(int64_t)c, (uint64_t)b, (uint64_t)ll, fbits(f), (uint64_t)(int64_t)(int)e, us, fp, (uint64_t)(int64_t)l });
    if (g_callc_override) {
      fp = g_callc_fp;
      l = g_callc_l;
    }
    uint32_t r = Sbx::guest_call<uint32_t, char, bool, int64_t, float, Color, uint16_t, uint32_t, int32_t>(cb, c, b, ll, f, e, us, fp, l);
    g_callc_guest_got = r;
    g_callc_returned = true;
    return r;
  }
  static uint32_t fnret(uint32_t gf)
  {
    grec(FN_FNRET, LIB, { gf });
    return (uint32_t)g_result_bits;
  }
  static float rf(float v)
  {
    grec(FN_RF, LIB, { fbits(v) });
    float r;
    uint32_t b = (uint32_t)g_result_bits;
    memcpy(&r, &b, 4);
    return r;
  }
};
template<int LIB>
static std::vector<Sym> make_lib()
{
  std::vector<Sym> v = { { "f_ints", (void*)&G<LIB>::ints },     { "f_fp", (void*)&G<LIB>::fp },
                         { "f_enum", (void*)&G<LIB>::en },       { "f_ptrs", (void*)&G<LIB>::ptrs },
                         { "f_fn", (void*)&G<LIB>::fn },         { "f_struct", (void*)&G<LIB>::st },
                         { "f_ret_struct", (void*)&G<LIB>::ret_st }, { "f_void", (void*)&G<LIB>::vd },
                         { "f_many", (void*)&G<LIB>::many },     { "f_u", (void*)&G<LIB>::u },
                         { "f_rs", (void*)&G<LIB>::rs },         { "f_ruc", (void*)&G<LIB>::ruc },
                         { "f_rll", (void*)&G<LIB>::rll },       { "f_rb", (void*)&G<LIB>::rb },
                         { "f_rf", (void*)&G<LIB>::rf },         { "f_fnret", (void*)&G<LIB>::fnret },
                         { "f_callc", (void*)&G<LIB>::callc },   { "f_struct3", (void*)&G<LIB>::st3 },
                         { "f_callS", (void*)&G<LIB>::callS },   { "f_callE", (void*)&G<LIB>::callE },
                         { "f_plong", (void*)&G<LIB>::plong },   { "f_callR", (void*)&G<LIB>::callR },
                         { "f_image_decoder_pipeline_process_header_block", (void*)&G<LIB>::long1 },
                         { "f_image_decoder_pipeline_process_pixels_block", (void*)&G<LIB>::long2 } };
  if (LIB == 1)
    std::reverse(v.begin(), v.end()); // same names, different table indices
  return v;
}

static rlbox::tainted<long, Sbx> app_cb(Sandbox&, rlbox::tainted<long, Sbx> a, rlbox::tainted<unsigned, Sbx>)
{
  return a;
}
static rlbox::tainted<long, Sbx> app_cb2(Sandbox&, rlbox::tainted<long, Sbx> a, rlbox::tainted<unsigned, Sbx>)
{
  return a;
}

// a callback whose parameters cover the remaining scalar kinds, a function pointer and a long; unsigned long result
struct CbCRec
{
  void* sandbox;
  char c;
  bool b;
  long long ll;
  uint32_t fbits;
  int e;
  unsigned short us;
  uint64_t fp_rep;
  bool fp_null;
  long l;
};
static std::vector<CbCRec> g_cbc_log;
static unsigned long g_cbc_ret;
static rlbox::tainted<unsigned long, Sbx> app_cbC(Sandbox& sb,
                                                  rlbox::tainted<char, Sbx> c,
                                                  rlbox::tainted<bool, Sbx> b,
                                                  rlbox::tainted<long long, Sbx> ll,
                                                  rlbox::tainted<float, Sbx> f,
                                                  rlbox::tainted<Color, Sbx> e,
                                                  rlbox::tainted<unsigned short, Sbx> us,
                                                  rlbox::tainted<void (*)(void), Sbx> fp,
                                                  rlbox::tainted<long, Sbx> l)
{
  g_cbc_log.push_back(CbCRec{ &sb,
                              c.UNSAFE_unverified(),
                              b.UNSAFE_unverified(),
                              ll.UNSAFE_unverified(),
                              (uint32_t)fbits(f.UNSAFE_unverified()),
                              (int)e.UNSAFE_unverified(),
                              us.UNSAFE_unverified(),
                              (uint64_t)fp.UNSAFE_sandboxed(sb),
                              fp.UNSAFE_unverified() == nullptr,
                              l.UNSAFE_unverified() });
  return g_cbc_ret;
}

// callbacks on the host-ABI backends (noop, dylib) whose results are double / long long / float / unsigned long
struct HostCbSeen
{
  int runs = 0;
  void* sandbox = nullptr;
  uint64_t a = 0, b = 0;
};
static HostCbSeen g_hcb;
static uint64_t g_hcb_ret;
template<class SB>
static rlbox::tainted<double, SB> hcb_d(rlbox::rlbox_sandbox<SB>& sb, rlbox::tainted<double, SB> a, rlbox::tainted<float, SB> b)
{
  g_hcb.runs++;
  g_hcb.sandbox = &sb;
  g_hcb.a = dbits(a.UNSAFE_unverified());
  g_hcb.b = fbits(b.UNSAFE_unverified());
  double r;
  memcpy(&r, &g_hcb_ret, 8);
  return r;
}
template<class SB>
static rlbox::tainted<long long, SB> hcb_ll(rlbox::rlbox_sandbox<SB>& sb, rlbox::tainted<long long, SB> a, rlbox::tainted<unsigned char, SB> b)
{
  g_hcb.runs++;
  g_hcb.sandbox = &sb;
  g_hcb.a = (uint64_t)a.UNSAFE_unverified();
  g_hcb.b = b.UNSAFE_unverified();
  return (long long)g_hcb_ret;
}
template<class SB>
static rlbox::tainted<float, SB> hcb_f(rlbox::rlbox_sandbox<SB>& sb, rlbox::tainted<float, SB> a)
{
  g_hcb.runs++;
  g_hcb.sandbox = &sb;
  g_hcb.a = fbits(a.UNSAFE_unverified());
  float r;
  uint32_t bits = (uint32_t)g_hcb_ret;
  memcpy(&r, &bits, 4);
  return r;
}
template<class SB>
static rlbox::tainted<unsigned long, SB> hcb_ul(rlbox::rlbox_sandbox<SB>& sb, rlbox::tainted<unsigned long, SB> a, rlbox::tainted<short, SB> b)
{
  g_hcb.runs++;
  g_hcb.sandbox = &sb;
  g_hcb.a = a.UNSAFE_unverified();
  g_hcb.b = (uint64_t)(int64_t)b.UNSAFE_unverified();
  return (unsigned long)g_hcb_ret;
}

// a callback that takes a registered struct by value
struct CbSRec
{
  void* sandbox;
  long a;
  uintptr_t p;
  short s;
  unsigned long u;
};
static std::vector<CbSRec> g_cbs_log;
static long g_cbs_ret;
static rlbox::tainted<long, Sbx> app_cbS(Sandbox& sb, rlbox::tainted<SimPair, Sbx> pr)
{
  g_cbs_log.push_back(CbSRec{ &sb, pr.a.UNSAFE_unverified(), (uintptr_t)pr.p.UNSAFE_unverified(), pr.s.UNSAFE_unverified(), pr.u.UNSAFE_unverified() });
  return g_cbs_ret;
}

// a callback over the wide enumeration
struct CbERec
{
  void* sandbox;
  long long v;
};
static std::vector<CbERec> g_cbe_log;
static long long g_cbe_ret;
static rlbox::tainted<Wide64, Sbx> app_cbE(Sandbox& sb, rlbox::tainted<Wide64, Sbx> e)
{
  g_cbe_log.push_back(CbERec{ &sb, (long long)e.UNSAFE_unverified() });
  return (Wide64)g_cbe_ret;
}

// a callback that returns a registered struct with integer array fields by value
static SimCounters g_cbr_ret;
static int g_cbr_runs;
static rlbox::tainted<SimCounters, Sbx> app_cbR(Sandbox&, rlbox::tainted<long, Sbx>)
{
  g_cbr_runs++;
  rlbox::tainted<SimCounters, Sbx> r;
  for (int i = 0; i < 2; i++) {
    r.u[i] = g_cbr_ret.u[i];
    r.s[i] = g_cbr_ret.s[i];
    r.w[i] = g_cbr_ret.w[i];
  }
  return r;
}

enum Kind
{
  I_INTS,
  I_FP,
  I_ENUM,
  I_PTRS,
  I_FN,
  I_STRUCT,
  I_RET_STRUCT,
  I_VOID,
  I_MANY,
  I_U,
  A_ADDR,
  L_DESTROY,
  L_CREATE,
  D_INVOKE,
  D_DESTROY,
  D_CREATE,
  N_INVOKE,
  I_LOOKUP_FAIL,
  I_SMALL,
  I_FNRET,
  I_BYNAME,
  I_CBTYPES,
  H_CBRET,
  K_COUNT
};
static const char* kKind[] = { "ints",   "fp",     "enum", "ptrs",    "fn",     "struct",    "ret_struct",   "void",        "many",
                               "u",      "addr",   "destroy", "create", "dylib_invoke", "dylib_destroy", "dylib_create", "noop_invoke", "lookup_fails", "small_types",
                               "fn_pointer_in_and_out", "lookup_by_transient_name", "callback_scalar_kinds", "host_abi_callback_result_kinds" };
static_assert(sizeof(kKind) / sizeof(kKind[0]) == K_COUNT);

typedef __int128 i128;
static i128 pick_int(Rng& r, int bits, bool sign)
{
  // boundary-biased value for a host type of `bits` bits
  i128 lo = sign ? -((i128)1 << (bits - 1)) : 0, hi = sign ? ((i128)1 << (bits - 1)) - 1 : ((i128)1 << bits) - 1;
  static const long long cand[] = { 0,           1,          -1,           2,          127,         128,        255,         256,
                                    32767,       32768,      -32768,       -32769,     65535,       65536,      2147483647LL, 2147483648LL,
                                    -2147483648LL, -2147483649LL, 4294967295LL, 4294967296LL, 4294967337LL, 1LL << 40,  -(1LL << 40), INT64_MAX,
                                    INT64_MIN };
  i128 v;
  unsigned c = (unsigned)r.below(10);
  if (c < 5)
    v = cand[r.below(sizeof(cand) / sizeof(cand[0]))];
  else if (c < 7)
    v = r.chance(1, 2) ? hi - (i128)r.below(3) : lo + (i128)r.below(3);
  else if (c < 9)
    v = (i128)r.range(-100000, 100000);
  else
    v = (i128)(int64_t)r.next();
  if (v < lo || v > hi)
    v = sign ? (i128)(int64_t)((uint64_t)v << (64 - bits)) >> (64 - bits) : (i128)((uint64_t)v & (bits == 64 ? ~0ULL : ((1ULL << bits) - 1)));
  return v;
}

struct InvokeWorld : World
{
  const char* name() const override { return "invoke"; }
  const char* op_name(int k) const override { return kKind[k]; }
  int op_kind_count() const override { return K_COUNT; }

  Plan generate(Rng& r, bool thorough) override
  {
    Plan p;
    int nsbx = (int)r.range(1, 3);
    p.cfg = { nsbx, r.chance(1, 2) };
    int n = (int)r.range(4, thorough ? 50 : 30);
    std::vector<unsigned> w = { 10, 4, 4, 6, 8, 5, 5, 4, 4, 8, 8, 3, 4, 6, 2, 3, 2, 5, 9, 6, 6, 7, 5 };
    for (auto& x : w)
      if (r.chance(1, 6))
        x = 0;
    for (int i = 0; i < n; i++) {
      Op o;
      o.kind = (int)r.weighted(w);
      o.a[0] = (int64_t)r.below(8); // sandbox selector
      o.a[1] = (int64_t)r.below(8); // form
      o.a[2] = (int64_t)(r.next() >> 1); // value seed
      o.a[3] = (int64_t)(r.chance(1, 3) ? (r.next() >> 1) : (uint64_t)pick_int(r, 33, true) & 0x7fffffffffffffffLL); // result bits
      o.a[4] = (int64_t)r.below(FN_COUNT);
      o.a[5] = (int64_t)r.below(FN_COUNT);
      if (o.kind == I_FNRET)
        o.a[3] = r.chance(1, 3) ? 0 : (int64_t)r.range(1, 40); // function index the guest returns (0 = null)
      p.ops.push_back(o);
    }
    return p;
  }

  struct SbxM
  {
    std::unique_ptr<Sandbox> sb;
    bool created = false;
    int lib = 0;
    std::unique_ptr<rlbox::sandbox_callback<long (*)(long, unsigned), Sbx>> cb;
    using CbC = rlbox::sandbox_callback<unsigned long (*)(char, bool, long long, float, Color, unsigned short, void (*)(void), long), Sbx>;
    std::unique_ptr<CbC> cbc;
    using CbS = rlbox::sandbox_callback<long (*)(SimPair), Sbx>;
    std::unique_ptr<CbS> cbs;
    uint64_t fn_translations_at_create = 0;
    using CbE = rlbox::sandbox_callback<Wide64 (*)(Wide64), Sbx>;
    std::unique_ptr<CbE> cbe;
    using CbR = rlbox::sandbox_callback<SimCounters (*)(long), Sbx>;
    std::unique_ptr<CbR> cbr;
    TT<char*> buf = nullptr;
    TT<int*> ibuf = nullptr;
    bool have_addr[FN_COUNT] = {};
    bool looked[FN_COUNT] = {}; // the name has been resolved successfully in this incarnation
    TT<void (*)(void)> addr_void = nullptr; // get_sandbox_function_address(f_void)
  };
  std::vector<SbxM> S;
  Ctx* C = nullptr;

  int sym_index(int lib, const char* nm)
  {
    auto& L = libs()[(size_t)lib];
    for (size_t i = 0; i < L.size(); i++)
      if (!strcmp(L[i].name, nm))
        return (int)i + 1;
    return 0;
  }

  // expectation for one invocation
  struct Expect
  {
    bool abort = false; // some argument is not representable in the guest type
    std::vector<uint64_t> args;
  };
  template<class Guest>
  static void conv(Expect& e, i128 v)
  {
    i128 lo = std::numeric_limits<Guest>::min(), hi = std::numeric_limits<Guest>::max();
    if (v < lo || v > hi)
      e.abort = true;
    e.args.push_back((uint64_t)(int64_t)v);
  }

  // checks after an invocation attempt
  bool judge(SbxM& m, int fn, Outcome o, size_t before, const Expect& e, const char* opn)
  {
    size_t recs = g_glog.size() - before;
    if (e.abort) {
      C->fired("F9_unrepresentable_argument");
      if (o != ABORT || recs != 0) {
        C->violate("C11",
                   std::string("unrepresentable_argument_not_refused_before_call@") + opn,
                   "outcome %s, guest records %zu (the guest function must not run)",
                   oname(o),
                   recs);
        return false;
      }
      return false;
    }
    if (o != OK) {
      C->violate("C11", std::string("invoke_fails@") + opn, "%s: %s", oname(o), g_last_abort_msg.c_str());
      return false;
    }
    if (recs != 1) {
      C->violate("C11", std::string("not_exactly_one_call@") + opn, "%zu guest records", recs);
      return false;
    }
    const GuestRec& r = g_glog.back();
    m.looked[fn] = true;
    if (r.fn != fn) {
      C->violate("C11", std::string("wrong_function@") + opn, "%s ran instead of %s", kFnName[r.fn], kFnName[fn]);
      return false;
    }
    if (r.lib != m.lib || r.inst != m.sb->get_sandbox_impl()->inst_id) {
      C->violate("C11", std::string("wrong_library@") + opn, "function of library %d ran for an instance bound to library %d", r.lib, m.lib);
      return false;
    }
    if (r.args != e.args) {
      std::string d;
      for (size_t i = 0; i < r.args.size() && i < e.args.size(); i++)
        if (r.args[i] != e.args[i]) {
          char b[96];
          snprintf(b, sizeof b, "arg %zu: guest saw %lld expected %lld; ", i, (long long)r.args[i], (long long)e.args[i]);
          d += b;
        }
      C->violate("C11", std::string("wrong_argument_values@") + opn, "%s", d.c_str());
      return false;
    }
    return true;
  }

  template<class T, class F>
  static void form_call(int form, F&& f)
  {
    (void)form;
    f();
  }

  void op_ints(SbxM& m, const Op& op)
  {
    Rng r((uint64_t)op.a[2]);
    char c = (char)pick_int(r, 8, true);
    short s = (short)pick_int(r, 16, true);
    int i = (int)pick_int(r, 32, true);
    long l = (long)pick_int(r, 64, true);
    long long ll = (long long)pick_int(r, 64, true);
    unsigned long ul = (unsigned long)pick_int(r, 64, false);
    size_t z = (size_t)pick_int(r, 64, false);
    int form = (int)((uint64_t)op.a[1] % 8);
    if (form > 4)
      form %= 4;
    if (r.chance(1, 2) || form == 4) { // keep most calls representable so that results are exercised too
      l = (int)l;
      ul = (unsigned)ul;
      z = (unsigned)z;
    }
    Expect e;
    conv<char>(e, c);
    conv<int16_t>(e, s);
    conv<int32_t>(e, i);
    conv<int32_t>(e, l);
    conv<int64_t>(e, ll);
    conv<uint32_t>(e, (i128)ul);
    conv<uint32_t>(e, (i128)z);
    g_result_bits = (uint64_t)op.a[3];
    size_t before = g_glog.size();
    long got = 0;
    if (form == 4) {
      // the arguments live in sandbox memory (guest layout) and are passed as they are: tainted_volatile operands
      uint8_t* g = (uint8_t*)m.buf.UNSAFE_unverified();
      int32_t l32 = (int32_t)l;
      uint32_t ul32 = (uint32_t)ul, z32 = (uint32_t)z;
      memcpy(g + 0, &c, 1);
      memcpy(g + 2, &s, 2);
      memcpy(g + 4, &i, 4);
      memcpy(g + 8, &l32, 4);
      memcpy(g + 16, &ll, 8);
      memcpy(g + 24, &ul32, 4);
      memcpy(g + 28, &z32, 4);
      C->probe("arguments_passed_straight_from_sandbox_memory");
    }
    Outcome o = attempt([&] {
      if (form == 4) {
        auto pc = m.buf;
        auto ps = rlbox::sandbox_reinterpret_cast<short*>(m.buf + 2);
        auto pi = rlbox::sandbox_reinterpret_cast<int*>(m.buf + 4);
        auto pl = rlbox::sandbox_reinterpret_cast<long*>(m.buf + 8);
        auto pll = rlbox::sandbox_reinterpret_cast<long long*>(m.buf + 16);
        auto pul = rlbox::sandbox_reinterpret_cast<unsigned long*>(m.buf + 24);
        auto pz = rlbox::sandbox_reinterpret_cast<size_t*>(m.buf + 28);
        got = m.sb->invoke_sandbox_function(f_ints, *pc, *ps, *pi, *pl, *pll, *pul, *pz).UNSAFE_unverified();
      } else if (form == 0)
        got = m.sb->invoke_sandbox_function(f_ints, c, s, i, l, ll, ul, z).UNSAFE_unverified();
      else if (form == 1)
        got = m.sb->invoke_sandbox_function(f_ints, TT<char>(c), TT<short>(s), TT<int>(i), TT<long>(l), TT<long long>(ll), TT<unsigned long>(ul), TT<size_t>(z)).UNSAFE_unverified();
      else if (form == 2)
        got = m.sb
                ->invoke_sandbox_function(f_ints,
                                          TT<char>(c).to_opaque(),
                                          TT<short>(s).to_opaque(),
                                          TT<int>(i).to_opaque(),
                                          TT<long>(l).to_opaque(),
                                          TT<long long>(ll).to_opaque(),
                                          TT<unsigned long>(ul).to_opaque(),
                                          TT<size_t>(z).to_opaque())
                .UNSAFE_unverified();
      else
        got = m.sb->invoke_sandbox_function(f_ints, c, TT<short>(s), i, TT<long>(l).to_opaque(), ll, TT<unsigned long>(ul), z).UNSAFE_unverified();
    });
    C->ev("ints form %d -> %s", form, oname(o));
    if (judge(m, FN_INTS, o, before, e, "ints") && got != (long)(int32_t)g_result_bits)
      C->violate("C11", "wrong_result@ints", "guest returned %d, application got %ld", (int32_t)g_result_bits, got);
  }

  void op_u(SbxM& m, const Op& op)
  {
    Rng r((uint64_t)op.a[2]);
    unsigned long ul = (unsigned long)pick_int(r, 64, false);
    size_t z = (size_t)pick_int(r, 64, false);
    unsigned long long ull = (unsigned long long)pick_int(r, 64, false);
    unsigned short us = (unsigned short)pick_int(r, 16, false);
    if (r.chance(1, 2)) {
      ul = (unsigned)ul;
      z = (unsigned)z;
    }
    Expect e;
    conv<uint32_t>(e, (i128)ul);
    conv<uint32_t>(e, (i128)z);
    e.args.push_back(ull);
    conv<uint16_t>(e, us);
    g_result_bits = (uint64_t)op.a[3];
    size_t before = g_glog.size();
    int form = (int)((uint64_t)op.a[1] % 3);
    unsigned long got = 0;
    Outcome o = attempt([&] {
      if (form == 0)
        got = m.sb->invoke_sandbox_function(f_u, ul, z, ull, us).UNSAFE_unverified();
      else if (form == 1)
        got = m.sb->invoke_sandbox_function(f_u, TT<unsigned long>(ul), TT<size_t>(z), TT<unsigned long long>(ull), TT<unsigned short>(us)).UNSAFE_unverified();
      else
        got = m.sb->invoke_sandbox_function(f_u, ul, TT<size_t>(z).to_opaque(), ull, TT<unsigned short>(us)).UNSAFE_unverified();
    });
    C->ev("u form %d -> %s", form, oname(o));
    if (judge(m, FN_U, o, before, e, "u") && got != (unsigned long)(uint32_t)g_result_bits)
      C->violate("C11", "wrong_result@u", "guest returned %u, application got %lu", (uint32_t)g_result_bits, got);
  }

  void op_fp(SbxM& m, const Op& op)
  {
    Rng r((uint64_t)op.a[2]);
    static const double ds[] = { 0.0, -0.0, 1.5, -2.25, 1e300, 5e-324, 3.4028234664e38, 1e-45 };
    float f = (float)ds[r.below(8)];
    double d = ds[r.below(8)];
    Expect e;
    e.args = { fbits(f), dbits(d) };
    double want = ds[(uint64_t)op.a[3] % 8];
    g_result_bits = dbits(want);
    size_t before = g_glog.size();
    double got = 0;
    int form = (int)((uint64_t)op.a[1] % 2);
    Outcome o = attempt([&] {
      if (form == 0)
        got = m.sb->invoke_sandbox_function(f_fp, f, d).UNSAFE_unverified();
      else
        got = m.sb->invoke_sandbox_function(f_fp, TT<float>(f), TT<double>(d).to_opaque()).UNSAFE_unverified();
    });
    if (judge(m, FN_FP, o, before, e, "fp") && dbits(got) != dbits(want))
      C->violate("C11", "wrong_result@fp", "floating point result changed");
  }

  void op_enum(SbxM& m, const Op& op)
  {
    static const Color cs[] = { RED, GREEN, HUGE_C, NEG_C };
    Color cv = cs[(uint64_t)op.a[2] % 4];
    bool b = (op.a[2] >> 3) & 1;
    Expect e;
    e.args = { (uint64_t)(int64_t)(int)cv, (uint64_t)b };
    Color want = cs[(uint64_t)op.a[3] % 4];
    g_result_bits = (uint64_t)(int64_t)(int)want;
    size_t before = g_glog.size();
    Color got = RED;
    int form = (int)((uint64_t)op.a[1] % 2);
    Outcome o = attempt([&] {
      if (form == 0)
        got = m.sb->invoke_sandbox_function(f_enum, cv, b).UNSAFE_unverified();
      else
        got = m.sb->invoke_sandbox_function(f_enum, TT<Color>(cv), TT<bool>(b)).UNSAFE_unverified();
    });
    if (judge(m, FN_ENUM, o, before, e, "enum") && got != want)
      C->violate("C11", "wrong_result@enum", "enum result changed");
  }

  void op_ptrs(SbxM& m, const Op& op)
  {
    uintptr_t base = (uintptr_t)m.sb->get_sandbox_impl()->mem.base;
    size_t size = m.sb->get_sandbox_impl()->mem.size;
    int form = (int)((uint64_t)op.a[1] % 8);
    if (form == 5) {
      // pointers to long / to pointers at every position that is aligned for the GUEST (4 bytes): odd positions are
      // not aligned for the application's 8-byte types, and need not be
      unsigned k0 = (unsigned)((uint64_t)op.a[2] % 4), k1 = (unsigned)(((uint64_t)op.a[2] / 4) % 4), k2 = (unsigned)(((uint64_t)op.a[2] / 16) % 4);
      auto lp = rlbox::sandbox_reinterpret_cast<long*>(m.ibuf + k0);
      auto pp = rlbox::sandbox_reinterpret_cast<char**>(m.ibuf + k1);
      auto up = rlbox::sandbox_reinterpret_cast<unsigned long*>(m.ibuf + k2);
      Expect e5;
      uint32_t r0 = (uint32_t)((uintptr_t)m.ibuf.UNSAFE_unverified() - base);
      e5.args = { r0 + 4 * k0, r0 + 4 * k1, r0 + 4 * k2 };
      g_result_bits = (uint64_t)(uint32_t)op.a[3] & 0x7fffffffu;
      size_t before5 = g_glog.size();
      long got5 = 0;
      Outcome o5 = attempt([&] { got5 = m.sb->invoke_sandbox_function(f_plong, lp, pp, up).UNSAFE_unverified(); });
      C->ev("ptrs to 8-byte types at guest-aligned positions %u %u %u -> %s", k0, k1, k2, oname(o5));
      C->probe("pointer_argument_aligned_for_the_guest_only");
      if (judge(m, FN_PLONG, o5, before5, e5, "ptrs") && got5 != (long)(int32_t)g_result_bits)
        C->violate("C11", "wrong_result@ptrs", "result");
      return;
    }
    if (form > 4)
      form %= 4;
    TT<char*> p = m.buf + (int)((uint64_t)op.a[2] % 32);
    TT<int*> q = m.ibuf;
    TT<void*> v = rlbox::sandbox_reinterpret_cast<void*>(m.buf);
    Expect e;
    uint32_t rp = (uint32_t)((uintptr_t)p.UNSAFE_unverified() - base), rq = (uint32_t)((uintptr_t)q.UNSAFE_unverified() - base);
    g_result_bits = (uint64_t)op.a[3] & 0xffffffffu;
    size_t before = g_glog.size();
    TT<char*> got = nullptr;
    Outcome o = attempt([&] {
      if (form == 0) {
        e.args = { rp, rq, (uint32_t)((uintptr_t)v.UNSAFE_unverified() - base) };
        got = m.sb->invoke_sandbox_function(f_ptrs, p, q, v);
      } else if (form == 1) {
        e.args = { 0, rq, 0 };
        got = m.sb->invoke_sandbox_function(f_ptrs, nullptr, q, nullptr);
      } else if (form == 2) {
        e.args = { rp, 0, (uint32_t)((uintptr_t)v.UNSAFE_unverified() - base) };
        TT<int*> nq = nullptr;
        got = m.sb->invoke_sandbox_function(f_ptrs, p.to_opaque(), nq, v.to_opaque());
      } else if (form == 4) {
        // pointer arguments that live in sandbox memory, holding whatever the guest put there, passed as they are
        uint32_t r0 = (uint32_t)((uint64_t)op.a[2] >> 8), r1 = (op.a[2] & 64) ? 0 : rq;
        uint8_t* g = (uint8_t*)m.ibuf.UNSAFE_unverified();
        memcpy(g, &r0, 4);
        memcpy(g + 4, &r1, 4);
        auto c0 = rlbox::sandbox_reinterpret_cast<char**>(m.ibuf);
        auto c1 = rlbox::sandbox_reinterpret_cast<int**>(m.ibuf + 1);
        e.args = { r0, r1, 0 };
        C->probe("arguments_passed_straight_from_sandbox_memory");
        got = m.sb->invoke_sandbox_function(f_ptrs, *c0, *c1, nullptr);
      } else {
        e.args = { 0, 0, 0 };
        TT<char*> np = nullptr;
        got = m.sb->invoke_sandbox_function(f_ptrs, np, nullptr, nullptr);
      }
    });
    C->ev("ptrs form %d -> %s", form, oname(o));
    if (judge(m, FN_PTRS, o, before, e, "ptrs")) {
      uint32_t bits = (uint32_t)g_result_bits;
      uintptr_t want = bits == 0 ? 0 : base + (bits & (size - 1));
      if ((uintptr_t)got.UNSAFE_unverified() != want)
        C->violate("C11", "wrong_result@ptrs", "guest returned pointer representation %u", bits);
    }
  }

  void op_fn(SbxM& m, const Op& op)
  {
    if (!m.cb)
      return;
    int form = (int)((uint64_t)op.a[1] % 8);
    if (form >= 3 && form <= 5) {
      // an owner that holds no registration (never had one / gave it up / was moved from) is "no callback": the
      // function runs, once, with a null function pointer
      using Cb = rlbox::sandbox_callback<long (*)(long, unsigned), Sbx>;
      Expect e0;
      e0.args = { 0, 0 };
      g_result_bits = (uint64_t)op.a[3];
      size_t before0 = g_glog.size();
      int got0 = 0;
      Outcome o0 = attempt([&] {
        Cb inert;
        if (form == 4) {
          Cb tmp = m.sb->register_callback(app_cb2);
          tmp.unregister();
          inert = std::move(tmp);
        } else if (form == 5) {
          Cb tmp = m.sb->register_callback(app_cb2);
          Cb taker = std::move(tmp);
          got0 = m.sb->invoke_sandbox_function(f_fn, tmp, nullptr).UNSAFE_unverified();
          return;
        }
        got0 = m.sb->invoke_sandbox_function(f_fn, inert, nullptr).UNSAFE_unverified();
      });
      C->ev("fn with inert callback owner (form %d) -> %s", form, oname(o0));
      C->probe("inert_callback_owner_passed_as_argument");
      if (judge(m, FN_FN, o0, before0, e0, "fn") && got0 != (int)(int32_t)g_result_bits)
        C->violate("C11", "wrong_result@fn", "result");
      return;
    }
    form %= 3;
    bool fresh_addr = form != 1 || !m.have_addr[FN_VOID];
    Expect e;
    uint32_t cbidx = (uint32_t)m.cb->UNSAFE_sandboxed(*m.sb);
    uint32_t want_gf = (uint32_t)sym_index(m.lib, "f_void");
    g_result_bits = (uint64_t)op.a[3];
    size_t before = g_glog.size();
    int got = 0;
    uint64_t tr_before = 0;
    bool fn_given = false;
    Outcome o = attempt([&] {
      TT<void (*)(void)> gf = nullptr;
      if (form == 2) {
        e.args = { cbidx, 0 };
        got = m.sb->invoke_sandbox_function(f_fn, *m.cb, nullptr).UNSAFE_unverified();
      } else {
        if (fresh_addr) {
          gf = m.sb->get_sandbox_function_address(f_void);
        } else {
          gf = m.addr_void; // obtained earlier in this incarnation, possibly before f_void was ever invoked
          C->probe("function_address_obtained_earlier");
        }
        e.args = { cbidx, want_gf };
        tr_before = sim::g_fn_translations;
        fn_given = true;
        got = m.sb->invoke_sandbox_function(f_fn, *m.cb, gf).UNSAFE_unverified();
      }
    });
    C->ev("fn form %d -> %s", form, oname(o));
    if (fn_given && o == OK) {
      // what the guest is given for a function is the backend's representation of it: the first time a function's
      // address crosses in an incarnation the backend has to be asked - an answer that was not obtained in this
      // incarnation can only stem from an earlier one
      (void)tr_before;
      if (sim::g_fn_translations == m.fn_translations_at_create)
        C->violate("C11", "function_representation_not_obtained_from_this_incarnation@fn", "a function address was handed to the guest although the backend has not been asked to translate any since this incarnation was created");
    }
    if (judge(m, FN_FN, o, before, e, "fn") && got != (int)(int32_t)g_result_bits)
      C->violate("C11", "wrong_result@fn", "result");
  }

  // by-value struct whose guest image is as large as the host struct (but laid out differently)
  void op_struct3(SbxM& m, const Op& op)
  {
    Rng r((uint64_t)op.a[2]);
    uintptr_t base = (uintptr_t)m.sb->get_sandbox_impl()->mem.base;
    rlbox::tainted<SimPair3, Sbx> pr;
    long a = (long)(int)pick_int(r, 32, true);
    long long x = (long long)pick_int(r, 64, true);
    int p0 = (int)pick_int(r, 32, true), p1 = (int)pick_int(r, 32, true);
    bool nullp = r.chance(1, 3);
    pr.a = a;
    pr.x = x;
    pr.pad_to_guest_size[0] = p0;
    pr.pad_to_guest_size[1] = p1;
    if (nullp)
      pr.p = nullptr;
    else
      pr.p = m.buf + 5;
    Expect e;
    e.args = { nullp ? 0u : (uint32_t)((uintptr_t)m.buf.UNSAFE_unverified() + 5 - base), (uint64_t)x, (uint64_t)(int64_t)a, (uint64_t)(int64_t)p0, (uint64_t)(int64_t)p1 };
    g_result_bits = (uint64_t)op.a[3];
    size_t before = g_glog.size();
    long got = 0;
    Outcome o = attempt([&] {
      if (op.a[1] & 1)
        got = m.sb->invoke_sandbox_function(f_struct3, pr.to_opaque()).UNSAFE_unverified();
      else
        got = m.sb->invoke_sandbox_function(f_struct3, pr).UNSAFE_unverified();
    });
    C->ev("struct3 -> %s", oname(o));
    C->probe("struct_argument_with_guest_image_of_host_size");
    if (judge(m, FN_STRUCT3, o, before, e, "struct") && got != (long)(int32_t)g_result_bits)
      C->violate("C11", "wrong_result@struct", "result");
  }

  void op_struct(SbxM& m, const Op& op)
  {
    if (op.a[1] & 2) {
      op_struct3(m, op);
      return;
    }
    Rng r((uint64_t)op.a[2]);
    uintptr_t base = (uintptr_t)m.sb->get_sandbox_impl()->mem.base;
    rlbox::tainted<SimPair, Sbx> pr;
    long a = (long)(int)pick_int(r, 32, true); // representable: a failing field conversion ends in std::terminate (noexcept accessor)
    short s = (short)pick_int(r, 16, true);
    unsigned long u = (unsigned long)(unsigned)pick_int(r, 32, false);
    bool nullp = r.chance(1, 3);
    pr.a = a;
    pr.s = s;
    pr.u = u;
    if (nullp)
      pr.p = nullptr;
    else
      pr.p = m.buf + 3;
    Expect e;
    e.args = { (uint64_t)(int64_t)a, nullp ? 0u : (uint32_t)((uintptr_t)m.buf.UNSAFE_unverified() + 3 - base), (uint64_t)(int64_t)s, (uint64_t)(uint32_t)u };
    g_result_bits = (uint64_t)op.a[3];
    size_t before = g_glog.size();
    long got = 0;
    int form = (int)((uint64_t)op.a[1] % 2);
    Outcome o = attempt([&] {
      if (form == 0)
        got = m.sb->invoke_sandbox_function(f_struct, pr).UNSAFE_unverified();
      else
        got = m.sb->invoke_sandbox_function(f_struct, pr.to_opaque()).UNSAFE_unverified();
    });
    C->ev("struct -> %s", oname(o));
    if (judge(m, FN_STRUCT, o, before, e, "struct") && got != (long)(int32_t)g_result_bits)
      C->violate("C11", "wrong_result@struct", "result");
  }

  void op_ret_struct(SbxM& m, const Op& op)
  {
    uintptr_t base = (uintptr_t)m.sb->get_sandbox_impl()->mem.base;
    size_t size = m.sb->get_sandbox_impl()->mem.size;
    long a = (long)(int)op.a[2];
    Expect e;
    e.args = { (uint64_t)(int64_t)a };
    g_result_bits = (uint64_t)op.a[3];
    size_t before = g_glog.size();
    rlbox::tainted<SimPair, Sbx> got;
    Outcome o = attempt([&] { got = m.sb->invoke_sandbox_function(f_ret_struct, a); });
    C->ev("ret_struct -> %s", oname(o));
    if (judge(m, FN_RET_STRUCT, o, before, e, "ret_struct")) {
      uint32_t prep = (uint32_t)(g_result_bits >> 32);
      bool ok = got.a.UNSAFE_unverified() == (long)(int32_t)g_result_bits && got.s.UNSAFE_unverified() == (short)(int16_t)(g_result_bits >> 16) &&
                got.u.UNSAFE_unverified() == (unsigned long)(uint32_t)(g_result_bits * 2654435761u) &&
                (uintptr_t)got.p.UNSAFE_unverified() == (prep == 0 ? 0 : base + (prep & (size - 1)));
      if (!ok)
        C->violate("C11", "wrong_result@ret_struct", "a field of the returned struct does not equal the reference back-conversion");
    }
  }

  void op_void(SbxM& m, const Op& op)
  {
    if (op.a[1] & 2) {
      // two functions whose names agree in their first 38 characters
      bool second = (op.a[1] & 1) != 0;
      int v = (int)(op.a[2] % 100);
      Expect e;
      e.args = { (uint64_t)(int64_t)v };
      size_t before = g_glog.size();
      int got = 0;
      Outcome o = attempt([&] {
        got = second ? m.sb->invoke_sandbox_function(f_image_decoder_pipeline_process_pixels_block, v).UNSAFE_unverified()
                     : m.sb->invoke_sandbox_function(f_image_decoder_pipeline_process_header_block, v).UNSAFE_unverified();
      });
      C->probe("functions_with_long_common_name_prefix_invoked");
      if (judge(m, second ? FN_LONG2 : FN_LONG1, o, before, e, "void") && got != (second ? 2000 : 1000) + v)
        C->violate("C11", "wrong_result@void", "long-named function returned %d", got);
      return;
    }
    Expect e;
    size_t before = g_glog.size();
    if (op.a[1] & 4) {
      // the macro form with a sandbox expression that has a side effect and designates another instance when it is
      // evaluated again (an iterator over a pool of sandboxes)
      SbxM* other = nullptr;
      for (auto& x : S)
        if (&x != &m && x.created)
          other = &x;
      int evals = 0;
      auto next_of_pool = [&]() -> Sandbox& {
        evals++;
        return evals == 1 || !other ? *m.sb : *other->sb;
      };
      Outcome o = attempt([&] { sandbox_invoke(next_of_pool(), f_void); });
      C->probe("invocation_through_the_macro_with_an_expression_as_sandbox");
      if (evals != 1)
        C->violate("C11", "sandbox_expression_evaluated_more_than_once@void", "sandbox_invoke(expr, f): expr was evaluated %d times", evals);
      else
        judge(m, FN_VOID, o, before, e, "void");
      return;
    }
    Outcome o = attempt([&] { m.sb->invoke_sandbox_function(f_void); });
    judge(m, FN_VOID, o, before, e, "void");
  }

  void op_many(SbxM& m, const Op& op)
  {
    Rng r((uint64_t)op.a[2]);
    int a[11];
    Expect e;
    for (int k = 0; k < 11; k++) {
      a[k] = (int)pick_int(r, 32, true);
      e.args.push_back((uint64_t)(int64_t)a[k]);
    }
    unsigned a11 = (unsigned)pick_int(r, 32, false);
    e.args.push_back(a11);
    g_result_bits = (uint64_t)op.a[3];
    size_t before = g_glog.size();
    unsigned long got = 0;
    int form = (int)((uint64_t)op.a[1] % 2);
    Outcome o = attempt([&] {
      if (form == 0)
        got = m.sb->invoke_sandbox_function(f_many, a[0], a[1], a[2], a[3], a[4], a[5], a[6], a[7], a[8], a[9], a[10], a11).UNSAFE_unverified();
      else
        got = m.sb
                ->invoke_sandbox_function(f_many, TT<int>(a[0]), a[1], TT<int>(a[2]), a[3], TT<int>(a[4]).to_opaque(), a[5], a[6], TT<int>(a[7]), a[8], a[9], TT<int>(a[10]), TT<unsigned>(a11))
                .UNSAFE_unverified();
    });
    if (judge(m, FN_MANY, o, before, e, "many") && got != (unsigned long)(uint32_t)g_result_bits)
      C->violate("C11", "wrong_result@many", "result");
  }

  // functions over the remaining scalar types, as argument and as result: short, unsigned char, signed char,
  // long long, unsigned, bool, float
  void op_small(SbxM& m, const Op& op)
  {
    Rng r((uint64_t)op.a[2]);
    int which = (int)((uint64_t)op.a[4] % 5);
    bool wrapped = (op.a[1] & 1) != 0;
    g_result_bits = (uint64_t)op.a[3];
    size_t before = g_glog.size();
    Expect e;
    Outcome o = OK;
    bool result_ok = true;
    switch (which) {
      case 0: {
        short v = (short)pick_int(r, 16, true);
        e.args = { (uint64_t)(int64_t)v };
        short got = 0;
        o = attempt([&] { got = wrapped ? m.sb->invoke_sandbox_function(f_rs, TT<short>(v)).UNSAFE_unverified() : m.sb->invoke_sandbox_function(f_rs, v).UNSAFE_unverified(); });
        if (judge(m, FN_RS, o, before, e, "small_types"))
          result_ok = got == (short)(int16_t)g_result_bits;
        break;
      }
      case 1: {
        unsigned char v = (unsigned char)pick_int(r, 8, false);
        signed char w = (signed char)pick_int(r, 8, true);
        e.args = { v, (uint64_t)(int64_t)w };
        unsigned char got = 0;
        o = attempt([&] {
          got = wrapped ? m.sb->invoke_sandbox_function(f_ruc, TT<unsigned char>(v), TT<signed char>(w).to_opaque()).UNSAFE_unverified()
                        : m.sb->invoke_sandbox_function(f_ruc, v, w).UNSAFE_unverified();
        });
        if (judge(m, FN_RUC, o, before, e, "small_types"))
          result_ok = got == (unsigned char)g_result_bits;
        break;
      }
      case 2: {
        long long v = (long long)pick_int(r, 64, true);
        unsigned v2 = (unsigned)pick_int(r, 32, false);
        e.args = { (uint64_t)v, v2 };
        long long got = 0;
        o = attempt([&] {
          got = wrapped ? m.sb->invoke_sandbox_function(f_rll, TT<long long>(v), TT<unsigned>(v2)).UNSAFE_unverified()
                        : m.sb->invoke_sandbox_function(f_rll, v, v2).UNSAFE_unverified();
        });
        if (judge(m, FN_RLL, o, before, e, "small_types"))
          result_ok = got == (long long)g_result_bits;
        break;
      }
      case 3: {
        bool v = (op.a[2] & 1) != 0;
        e.args = { (uint64_t)v };
        bool got = false;
        o = attempt([&] { got = wrapped ? m.sb->invoke_sandbox_function(f_rb, TT<bool>(v)).UNSAFE_unverified() : m.sb->invoke_sandbox_function(f_rb, v).UNSAFE_unverified(); });
        if (judge(m, FN_RB, o, before, e, "small_types"))
          result_ok = got == ((g_result_bits & 1) != 0);
        break;
      }
      default: {
        static const float fs[] = { 0.0f, -0.0f, 1.5f, -3.25e30f, 1e-40f, 3.4e38f };
        float v = fs[(uint64_t)op.a[2] % 6];
        uint32_t wb = (uint32_t)fbits(fs[(uint64_t)op.a[3] % 6]);
        g_result_bits = wb;
        e.args = { fbits(v) };
        float got = 0;
        o = attempt([&] { got = wrapped ? m.sb->invoke_sandbox_function(f_rf, TT<float>(v)).UNSAFE_unverified() : m.sb->invoke_sandbox_function(f_rf, v).UNSAFE_unverified(); });
        if (judge(m, FN_RF, o, before, e, "small_types"))
          result_ok = fbits(got) == wb;
        break;
      }
    }
    C->ev("small_types %d wrapped=%d -> %s", which, (int)wrapped, oname(o));
    if (!result_ok && !C->stop)
      C->violate("C11", "wrong_result@small_types", "result of scalar type #%d does not equal the reference back-conversion of what the guest returned", which);
  }

  // function pointers in both directions, null included: null <-> 0 is RLBox's business, the backend answers garbage for it (C04)
  void op_fnret(SbxM& m, const Op& op)
  {
    int form = (int)((uint64_t)op.a[1] % 3); // 0: address of f_void; 1: null tainted function pointer; 2: nullptr literal
    uint32_t want_gf = form == 0 ? (uint32_t)sym_index(m.lib, "f_void") : 0;
    uint32_t rb = (uint32_t)op.a[3];
    g_result_bits = rb;
    Expect e;
    e.args = { want_gf };
    size_t before = g_glog.size();
    TT<void (*)(void)> got = nullptr;
    uint32_t null_rep = 0;
    Outcome o = attempt([&] {
      TT<void (*)(void)> gf = nullptr;
      if (form == 0)
        gf = m.sb->get_sandbox_function_address(f_void);
      else
        null_rep = (uint32_t)gf.UNSAFE_sandboxed(*m.sb);
      if (form == 2)
        got = m.sb->invoke_sandbox_function(f_fnret, nullptr);
      else
        got = m.sb->invoke_sandbox_function(f_fnret, gf);
    });
    C->ev("fn_pointer_in_and_out form %d returns %u -> %s", form, rb, oname(o));
    if (form != 0)
      C->probe("null_function_pointer_passed_to_sandbox");
    if (null_rep != 0) {
      C->violate("C04", "null_function_pointer_not_zero@fn_pointer_in_and_out", "UNSAFE_sandboxed(sandbox) of a null tainted function pointer is %u", null_rep);
      return;
    }
    if (o == OK && g_glog.size() == before + 1 && form != 0 && g_glog.back().fn == FN_FNRET && g_glog.back().args[0] != 0) {
      C->violate("C04", "null_function_pointer_not_zero@fn_pointer_in_and_out", "the guest received %llu for a null function pointer argument", (unsigned long long)g_glog.back().args[0]);
      return;
    }
    if (!judge(m, FN_FNRET, o, before, e, "fn_pointer_in_and_out"))
      return;
    uint32_t back = 0;
    bool is_null = false, eq_null = false;
    Outcome o2 = attempt([&] {
      back = (uint32_t)got.UNSAFE_sandboxed(*m.sb);
      is_null = got.UNSAFE_unverified() == nullptr;
      eq_null = got == nullptr;
    });
    if (rb == 0)
      C->probe("null_function_pointer_returned_by_sandbox");
    if (o2 != OK || is_null != (rb == 0) || eq_null != (rb == 0))
      C->violate("C04", "zero_function_pointer_not_null@fn_pointer_in_and_out", "guest returned index %u: null=%d ==nullptr %d (%s)", rb, (int)is_null, (int)eq_null, oname(o2));
    else if (back != rb)
      C->violate("C04", "wrong_representation@fn_pointer_in_and_out", "guest returned index %u, round trip gives %u", rb, back);
  }

  // Names reach lookup_symbol / INTERNAL_invoke_with_func_name as const char*: nothing says the storage outlives the call.
  // The name is passed in a scratch buffer that is reused for another name straight afterwards.
  void op_byname(SbxM& m, const Op& op)
  {
    static char namebuf[96];
    int fn = (int)((uint64_t)op.a[4] % FN_COUNT);
    int other = (int)((uint64_t)op.a[5] % FN_COUNT);
    snprintf(namebuf, sizeof namebuf, "%s", kFnName[fn]);
    void* got = nullptr;
    size_t before = g_glog.size();
    bool invoke_too = fn == FN_VOID && (op.a[1] & 1);
    Outcome o = attempt([&] {
      got = m.sb->lookup_symbol(namebuf);
      if (invoke_too)
        m.sb->template INTERNAL_invoke_with_func_name<decltype(f_void)>(namebuf);
    });
    // the caller's buffer now holds something else
    snprintf(namebuf, sizeof namebuf, "%s", kFnName[other]);
    C->probe("name_buffer_reused_after_lookup");
    C->ev("lookup_by_transient_name %s (then buffer := %s) -> %s", kFnName[fn], kFnName[other], oname(o));
    void* want = libs()[(size_t)m.lib][(size_t)sym_index(m.lib, kFnName[fn]) - 1].host;
    if (o != OK || got != want) {
      C->violate("C11", "wrong_symbol@lookup_by_transient_name", "%s of library %d did not resolve to that function (%s)", kFnName[fn], m.lib, oname(o));
      return;
    }
    m.looked[fn] = true;
    if (invoke_too) {
      Expect e;
      judge(m, FN_VOID, OK, before, e, "lookup_by_transient_name");
    }
  }

  // C12: every scalar kind, a function pointer and a long through a callback; unsigned long result back to the guest
  // C12: a registered struct handed to a callback by value (fields converted from the guest layout, the pointer field
  // whatever the guest put there)
  void op_cbstruct(SbxM& m, const Op& op)
  {
    if (!m.cbs)
      return;
    Rng r((uint64_t)op.a[2]);
    uintptr_t base = (uintptr_t)m.sb->get_sandbox_impl()->mem.base;
    size_t size = m.sb->get_sandbox_impl()->mem.size;
    rlbox::tainted<SimPair, Sbx> pr;
    short sv = (short)pick_int(r, 16, true);
    unsigned long uv = (unsigned long)(unsigned)pick_int(r, 32, false);
    pr.a = 1;
    pr.s = sv;
    pr.u = uv;
    pr.p = nullptr;
    g_callc_override = true;
    g_callc_fp = r.chance(1, 4) ? 0 : (uint32_t)pick_int(r, 32, false); // the pointer field as the guest sets it
    g_callc_l = (int32_t)pick_int(r, 32, true);
    g_callc_returned = false;
    long retv = (long)pick_int(r, 64, true);
    if (r.chance(2, 3))
      retv = (int32_t)retv;
    g_cbs_ret = retv;
    g_cbs_log.clear();
    bool ret_fits = retv >= INT32_MIN && retv <= INT32_MAX;
    long got = 0;
    size_t before = g_glog.size();
    Outcome o = attempt([&] { got = m.sb->invoke_sandbox_function(f_callS, *m.cbs, pr).UNSAFE_unverified(); });
    g_callc_override = false;
    C->ev("callback_struct_by_value ret_fits=%d -> %s", (int)ret_fits, oname(o));
    C->probe("callback_with_struct_parameter");
    if (g_glog.size() != before + 1 || g_glog.back().fn != FN_CALLS)
      return;
    if (g_cbs_log.size() != 1) {
      C->violate("C12", "callback_not_run_exactly_once@callback_scalar_kinds", "struct parameter: %zu runs (%s)", g_cbs_log.size(), oname(o));
      return;
    }
    const CbSRec& rec = g_cbs_log[0];
    uintptr_t want_p = g_callc_fp == 0 ? 0 : base + (g_callc_fp & (size - 1));
    if (rec.sandbox != m.sb.get() || rec.a != (long)g_callc_l || rec.p != want_p || rec.s != sv || rec.u != uv) {
      C->violate("C12", rec.p != want_p && (rec.p == 0 || want_p == 0) ? "null_pointer_field_not_preserved@callback_scalar_kinds" : "wrong_arguments@callback_scalar_kinds",
                 "struct parameter: a %ld/%d p-base %lld/%lld s %d/%d u %lu/%lu", rec.a, g_callc_l, rec.p ? (long long)(rec.p - base) : -1LL, want_p ? (long long)(want_p - base) : -1LL, rec.s, sv, rec.u, uv);
      return;
    }
    if (!ret_fits) {
      C->fired("F9_unrepresentable_callback_result");
      if (o != ABORT || g_callc_returned)
        C->violate("C12", "unrepresentable_result_not_refused@callback_scalar_kinds", "struct parameter: callback returned %ld: %s", retv, oname(o));
      return;
    }
    if (o != OK || !g_callc_returned || (int32_t)g_callc_guest_got != (int32_t)retv || got != (long)(int32_t)retv)
      C->violate("C12", "wrong_result_delivered_to_guest@callback_scalar_kinds", "struct parameter: callback returned %ld, guest received %d, application got %ld (%s)", retv, (int32_t)g_callc_guest_got, got, oname(o));
  }

  // C12: an enumeration wider than int as parameter and result of a callback - the same type on both sides, every value
  // of it must arrive as it was sent
  void op_cbenum(SbxM& m, const Op& op)
  {
    if (!m.cbe)
      return;
    Rng r((uint64_t)op.a[2]);
    static const long long vals[] = { W_ZERO, W_SMALL, W_HIGHBIT, W_BIG, W_NEG, W_MIN, 0x7fffffffLL, -1LL, 0xffffffffLL, INT64_MAX };
    g_callc_override = true;
    g_calle_v = r.chance(3, 4) ? vals[r.below(10)] : (long long)r.next();
    g_cbe_ret = r.chance(3, 4) ? vals[r.below(10)] : (long long)r.next();
    g_callc_returned = false;
    g_cbe_log.clear();
    long long got = 0;
    size_t before = g_glog.size();
    Outcome o = attempt([&] { got = (long long)m.sb->invoke_sandbox_function(f_callE, *m.cbe, W_SMALL).UNSAFE_unverified(); });
    g_callc_override = false;
    C->ev("callback_wide_enum %lld / %lld -> %s", g_calle_v, g_cbe_ret, oname(o));
    C->probe("callback_with_enum_wider_than_int");
    if (g_glog.size() != before + 1 || g_glog.back().fn != FN_CALLE)
      return;
    if (g_cbe_log.size() != 1)
      C->violate("C12", "callback_not_run_exactly_once@callback_scalar_kinds", "wide enum: %zu runs (%s)", g_cbe_log.size(), oname(o));
    else if (g_cbe_log[0].sandbox != m.sb.get() || g_cbe_log[0].v != g_calle_v)
      C->violate("C12", "wrong_arguments@callback_scalar_kinds", "wide enum: the guest passed %lld (%#llx), the callback received %lld (%#llx)", g_calle_v, (unsigned long long)g_calle_v, g_cbe_log[0].v, (unsigned long long)g_cbe_log[0].v);
    else if (o != OK || !g_callc_returned || g_calle_guest_got != g_cbe_ret || got != g_cbe_ret)
      C->violate("C12", "wrong_result_delivered_to_guest@callback_scalar_kinds", "wide enum: callback returned %lld, guest received %lld, application got %lld (%s)", g_cbe_ret, g_calle_guest_got, got, oname(o));
  }

  // C12: a callback returns a struct by value whose array fields hold integers that are narrower in the guest: every
  // element arrives as it was, or (one that the guest type cannot hold) the call aborts
  void op_cbretstruct(SbxM& m, const Op& op)
  {
    if (!m.cbr)
      return;
    Rng r((uint64_t)op.a[2]);
    bool fits = true;
    for (int i = 0; i < 2; i++) {
      uint64_t u = (uint64_t)pick_int(r, 64, false);
      if (r.chance(3, 4))
        u = (uint32_t)u;
      int64_t sv = (int64_t)pick_int(r, 64, true);
      if (r.chance(3, 4))
        sv = (int32_t)sv;
      g_cbr_ret.u[i] = (unsigned long)u;
      g_cbr_ret.s[i] = (long)sv;
      g_cbr_ret.w[i] = (unsigned short)pick_int(r, 16, false);
      fits = fits && u <= 0xFFFFFFFFull && sv >= INT32_MIN && sv <= INT32_MAX;
    }
    g_cbr_runs = 0;
    g_callc_returned = false;
    memset(&g_callr_got, 0, sizeof g_callr_got);
    size_t before = g_glog.size();
    long got = 0;
    Outcome o = attempt([&] { got = m.sb->invoke_sandbox_function(f_callR, *m.cbr, 3L).UNSAFE_unverified(); });
    C->ev("callback_returns_struct_with_arrays fits=%d -> %s", (int)fits, oname(o));
    C->probe("callback_returns_struct_with_integer_arrays");
    if (g_glog.size() != before + 1 || g_glog.back().fn != FN_CALLR)
      return;
    if (g_cbr_runs != 1) {
      C->violate("C12", "callback_not_run_exactly_once@callback_scalar_kinds", "struct result: %d runs (%s)", g_cbr_runs, oname(o));
      return;
    }
    if (!fits) {
      C->fired("F9_unrepresentable_callback_result");
      if (o != ABORT || g_callc_returned)
        C->violate("C12", "unrepresentable_result_not_refused@callback_scalar_kinds", "struct result with array elements (%lu, %lu, %ld, %ld): %s, the guest received (%u, %u, %d, %d)", g_cbr_ret.u[0], g_cbr_ret.u[1], g_cbr_ret.s[0],
                   g_cbr_ret.s[1], oname(o), g_callr_got.u[0], g_callr_got.u[1], g_callr_got.s[0], g_callr_got.s[1]);
      return;
    }
    bool same = g_callc_returned;
    for (int i = 0; i < 2; i++)
      same = same && g_callr_got.u[i] == (uint32_t)g_cbr_ret.u[i] && g_callr_got.s[i] == (int32_t)g_cbr_ret.s[i] && g_callr_got.w[i] == g_cbr_ret.w[i];
    if (o != OK || !same || got != 1)
      C->violate("C12", "wrong_result_delivered_to_guest@callback_scalar_kinds", "struct result: %s, elements (%lu, %lu) arrived as (%u, %u)", oname(o), g_cbr_ret.u[0], g_cbr_ret.u[1], g_callr_got.u[0], g_callr_got.u[1]);
  }

  void op_cbtypes(SbxM& m, const Op& op)
  {
    if ((op.a[1] & 7) == 5) {
      op_cbretstruct(m, op);
      return;
    }
    if (op.a[1] & 4) {
      op_cbstruct(m, op);
      return;
    }
    if ((op.a[1] & 7) == 3) {
      op_cbenum(m, op);
      return;
    }
    if (!m.cbc)
      return;
    Rng r((uint64_t)op.a[2]);
    char cv = (char)pick_int(r, 8, true);
    bool bv = r.chance(1, 2);
    long long llv = (long long)pick_int(r, 64, true);
    static const uint32_t fb[] = { 0, 0x80000000u, 0x3fc00000u, 0x7f7fffffu, 0x00000001u, 0xff800000u, 0x7fc00000u, 0xc2f6e979u };
    uint32_t fbv = fb[r.below(8)];
    float fv;
    memcpy(&fv, &fbv, 4);
    Color ev = (Color)(int)r.below(3);
    unsigned short usv = (unsigned short)pick_int(r, 16, false);
    g_callc_override = true;
    g_callc_fp = r.chance(1, 3) ? 0 : (uint32_t)r.range(1, 30); // the guest hands over any function index it likes, or null
    g_callc_l = (int32_t)pick_int(r, 32, true);
    g_callc_returned = false;
    unsigned long retv = (unsigned long)pick_int(r, 64, false);
    if (r.chance(2, 3))
      retv = (uint32_t)retv;
    g_cbc_ret = retv;
    g_cbc_log.clear();
    bool ret_fits = retv <= 0xFFFFFFFFUL;
    unsigned long got = 0;
    size_t before = g_glog.size();
    Outcome o = attempt([&] { got = m.sb->invoke_sandbox_function(f_callc, *m.cbc, cv, bv, llv, fv, ev, usv, nullptr, 0L).UNSAFE_unverified(); });
    g_callc_override = false;
    C->ev("callback_scalar_kinds ret_fits=%d -> %s", (int)ret_fits, oname(o));
    C->probe("callback_with_every_scalar_kind");
    if (g_glog.size() != before + 1 || g_glog.back().fn != FN_CALLC)
      return; // the invocation itself went wrong: C11's business, reported by the other operations
    if (g_cbc_log.size() != 1) {
      C->violate("C12", "callback_not_run_exactly_once@callback_scalar_kinds", "%zu runs (%s)", g_cbc_log.size(), oname(o));
      return;
    }
    const CbCRec& rec = g_cbc_log[0];
    bool args_ok = rec.sandbox == m.sb.get() && rec.c == cv && rec.b == bv && rec.ll == llv && rec.fbits == fbv && rec.e == (int)ev && rec.us == usv &&
                   rec.fp_rep == g_callc_fp && rec.fp_null == (g_callc_fp == 0) && rec.l == (long)g_callc_l;
    if (!args_ok) {
      C->violate("C12",
                 rec.fp_null != (g_callc_fp == 0) || (g_callc_fp == 0 && rec.fp_rep != 0) ? "null_function_pointer_argument_not_preserved@callback_scalar_kinds" : "wrong_arguments@callback_scalar_kinds",
                 "char %d/%d bool %d/%d long long %lld/%lld float %08x/%08x enum %d/%d ushort %u/%u fn %llu/%u long %ld/%d",
                 rec.c, cv, (int)rec.b, (int)bv, rec.ll, llv, rec.fbits, fbv, rec.e, (int)ev, rec.us, usv, (unsigned long long)rec.fp_rep, g_callc_fp, rec.l, g_callc_l);
      return;
    }
    if (!ret_fits) {
      C->fired("F9_unrepresentable_callback_result");
      if (o != ABORT || g_callc_returned)
        C->violate("C12", "unrepresentable_result_not_refused@callback_scalar_kinds", "callback returned %lu: %s, guest received %u", retv, oname(o), g_callc_guest_got);
      return;
    }
    if (o != OK || !g_callc_returned || g_callc_guest_got != (uint32_t)retv || got != (unsigned long)(uint32_t)retv)
      C->violate("C12", "wrong_result_delivered_to_guest@callback_scalar_kinds", "callback returned %lu, guest received %u, application got %lu (%s)", retv, g_callc_guest_got, got, oname(o));
  }

  // C12 on the real host-ABI backends: callbacks returning double / long long / float / unsigned long
  template<class SB, bool ByName>
  void host_cbret(rlbox::rlbox_sandbox<SB>& sb, const Op& op, const char* party)
  {
    Rng r((uint64_t)op.a[2]);
    int kind = (int)r.below(4);
    g_hcb = HostCbSeen();
    static const uint64_t dbl[] = { 0, 0x8000000000000000ULL, 0x3ff8000000000000ULL, 0x7fefffffffffffffULL, 1, 0xc05edd2f1a9fbe77ULL };
    static const uint32_t flt[] = { 0, 0x80000000u, 0x3fc00000u, 0x7f7fffffu, 1, 0xc2f6e979u };
    uint64_t a = 0, b = 0, want_ret = 0, got = 0;
    Outcome o = attempt([&] {
      if (kind == 0) {
        a = dbl[r.below(6)];
        b = flt[r.below(6)];
        g_hcb_ret = dbl[r.below(6)];
        double av, rv;
        float bv;
        uint32_t b32 = (uint32_t)b;
        memcpy(&av, &a, 8);
        memcpy(&bv, &b32, 4);
        auto cb = sb.register_callback(hcb_d<SB>);
        double res;
        if constexpr (ByName)
          res = sb.invoke_sandbox_function(g_call_d, cb, av, bv).UNSAFE_unverified();
        else
          res = sb.template INTERNAL_invoke_with_func_ptr<decltype(g_call_d)>("g_call_d", reinterpret_cast<void*>(&g_call_d), cb, av, bv).UNSAFE_unverified();
        memcpy(&rv, &g_hcb_ret, 8);
        got = dbits(res);
        want_ret = dbits(rv + 0.5);
      } else if (kind == 1) {
        a = (uint64_t)(long long)pick_int(r, 64, true);
        b = (uint64_t)r.below(256);
        g_hcb_ret = (uint64_t)(long long)pick_int(r, 64, true);
        auto cb = sb.register_callback(hcb_ll<SB>);
        long long res;
        if constexpr (ByName)
          res = sb.invoke_sandbox_function(g_call_ll, cb, (long long)a, (unsigned char)b).UNSAFE_unverified();
        else
          res = sb.template INTERNAL_invoke_with_func_ptr<decltype(g_call_ll)>("g_call_ll", reinterpret_cast<void*>(&g_call_ll), cb, (long long)a, (unsigned char)b).UNSAFE_unverified();
        got = (uint64_t)res;
        want_ret = (uint64_t)((long long)((unsigned long long)g_hcb_ret - 1ULL));
      } else if (kind == 2) {
        a = flt[r.below(6)];
        g_hcb_ret = flt[r.below(6)];
        float av;
        uint32_t a32 = (uint32_t)a;
        memcpy(&av, &a32, 4);
        auto cb = sb.register_callback(hcb_f<SB>);
        float res;
        if constexpr (ByName)
          res = sb.invoke_sandbox_function(g_call_f, cb, av).UNSAFE_unverified();
        else
          res = sb.template INTERNAL_invoke_with_func_ptr<decltype(g_call_f)>("g_call_f", reinterpret_cast<void*>(&g_call_f), cb, av).UNSAFE_unverified();
        got = fbits(res);
        want_ret = (uint32_t)g_hcb_ret;
      } else {
        a = (uint64_t)pick_int(r, 64, false);
        b = (uint64_t)(int64_t)(short)pick_int(r, 16, true);
        g_hcb_ret = (uint64_t)pick_int(r, 64, false);
        auto cb = sb.register_callback(hcb_ul<SB>);
        unsigned long res;
        if constexpr (ByName)
          res = sb.invoke_sandbox_function(g_call_ul, cb, (unsigned long)a, (short)(int64_t)b).UNSAFE_unverified();
        else
          res = sb.template INTERNAL_invoke_with_func_ptr<decltype(g_call_ul)>("g_call_ul", reinterpret_cast<void*>(&g_call_ul), cb, (unsigned long)a, (short)(int64_t)b).UNSAFE_unverified();
        got = res;
        want_ret = g_hcb_ret ^ 1ULL;
      }
    });
    C->ev("host_abi_callback_result_kinds %s kind %d -> %s", party, kind, oname(o));
    C->probe("host_abi_callback_with_non_long_result");
    if (o != OK) {
      C->violate("C12", "callback_call_fails@host_abi_callback_result_kinds", "%s kind %d: %s: %s", party, kind, oname(o), g_last_abort_msg.c_str());
      return;
    }
    if (g_hcb.runs != 1 || g_hcb.sandbox != &sb || g_hcb.a != a || (kind != 2 && g_hcb.b != b))
      C->violate("C12", "wrong_arguments@host_abi_callback_result_kinds", "%s kind %d: %d runs, a %llx/%llx b %llx/%llx", party, kind, g_hcb.runs, (unsigned long long)g_hcb.a, (unsigned long long)a, (unsigned long long)g_hcb.b, (unsigned long long)b);
    else if (got != want_ret)
      C->violate("C12", "wrong_result_delivered_to_guest@host_abi_callback_result_kinds", "%s kind %d: application got %llx, expected %llx", party, kind, (unsigned long long)got, (unsigned long long)want_ret);
  }

  void sim_create(SbxM& m, int lib)
  {
    Outcome o = attempt([&] { m.sb->create_sandbox(lib); });
    if (o != OK)
      return;
    m.created = true;
    m.lib = lib;
    m.fn_translations_at_create = sim::g_fn_translations;
    for (auto& h : m.have_addr)
      h = false;
    for (auto& l : m.looked)
      l = false;
    attempt([&] {
      m.buf = m.sb->malloc_in_sandbox<char>(64);
      m.ibuf = m.sb->malloc_in_sandbox<int>(4);
      m.cb = std::make_unique<rlbox::sandbox_callback<long (*)(long, unsigned), Sbx>>(m.sb->register_callback(app_cb));
      m.cbc = std::make_unique<SbxM::CbC>(m.sb->register_callback(app_cbC));
      m.cbs = std::make_unique<SbxM::CbS>(m.sb->register_callback(app_cbS));
      m.cbe = std::make_unique<SbxM::CbE>(m.sb->register_callback(app_cbE));
      m.cbr = std::make_unique<SbxM::CbR>(m.sb->register_callback(app_cbR));
    });
  }

  void run(const Plan& p, Ctx& c) override
  {
    C = &c;
    run_begin(&c);
    g_glog.clear();
    Sbx::cfg = Sbx::Config();
    Sbx::cfg.size = 65536;
    Sbx::cfg.registry = p.cfg.size() > 1 && p.cfg[1];
    int nsbx = p.cfg.empty() ? 1 : (int)p.cfg[0];
    if (nsbx < 1)
      nsbx = 1;
    if (nsbx > 3)
      nsbx = 3;
    S.clear();
    S.resize((size_t)nsbx);
    for (int s = 0; s < nsbx; s++) {
      S[(size_t)s].sb = std::make_unique<Sandbox>();
      sim_create(S[(size_t)s], s & 1);
    }
    // dylib / noop parties
    struct DM
    {
      std::unique_ptr<rlbox::rlbox_sandbox<DSbx>> sb;
      bool created = false;
      int lib = 0;
    };
    std::vector<DM> D(2);
    for (auto& d : D)
      d.sb = std::make_unique<rlbox::rlbox_sandbox<DSbx>>();
    rlbox::rlbox_sandbox<NSbx> nsb;
    nsb.create_sandbox();

    for (size_t i = 0; i < p.ops.size() && !c.stop; i++) {
      const Op& op = p.ops[i];
      c.cur_op = (int)i;
      c.st.steps++;
      c.st.opcount[kKind[op.kind]]++;
      c.ev("op %zu %s %lld %lld", i, kKind[op.kind], (long long)op.a[0], (long long)op.a[1]);
      SbxM& m = S[(uint64_t)op.a[0] % S.size()];
      int live = 0;
      for (auto& x : S)
        live += x.created;
      if (live >= 2)
        c.probe("two_or_more_live_instances");
      if (op.kind <= I_U && !m.created)
        continue;
      g_fault.clear();
      switch (op.kind) {
        case I_INTS:
          op_ints(m, op);
          break;
        case I_FP:
          op_fp(m, op);
          break;
        case I_ENUM:
          op_enum(m, op);
          break;
        case I_PTRS:
          op_ptrs(m, op);
          break;
        case I_FN:
          op_fn(m, op);
          break;
        case I_STRUCT:
          op_struct(m, op);
          break;
        case I_RET_STRUCT:
          op_ret_struct(m, op);
          break;
        case I_VOID:
          op_void(m, op);
          break;
        case I_MANY:
          op_many(m, op);
          break;
        case I_U:
          op_u(m, op);
          break;
        case I_SMALL:
          if (m.created)
            op_small(m, op);
          break;
        case I_FNRET:
          if (m.created)
            op_fnret(m, op);
          break;
        case I_BYNAME:
          if (m.created)
            op_byname(m, op);
          break;
        case I_CBTYPES:
          if (m.created)
            op_cbtypes(m, op);
          break;
        case A_ADDR: {
          if (!m.created)
            break;
          Outcome o = attempt([&] { m.addr_void = m.sb->get_sandbox_function_address(f_void); });
          if (o == OK) {
            m.have_addr[FN_VOID] = true;
            // the tainted address is the backend's representation of that function
            auto rep = (uintptr_t)m.addr_void.UNSAFE_sandboxed(*m.sb);
            if (rep != (uintptr_t)sym_index(m.lib, "f_void"))
              c.violate("C11", "function_address_is_not_backend_representation@addr", "got %llu expected index %d", (unsigned long long)rep, sym_index(m.lib, "f_void"));
          }
          break;
        }
        case L_DESTROY: {
          if (!m.created)
            break;
          m.cb.reset();
          m.cbc.reset();
          m.cbs.reset();
          m.cbe.reset();
          m.cbr.reset();
          attempt([&] { m.sb->destroy_sandbox(); });
          m.created = false;
          c.fired("F12_destroy_instance");
          break;
        }
        case L_CREATE: {
          if (m.created)
            break;
          sim_create(m, (int)(op.a[1] & 1));
          c.probe("instance_recreated");
          break;
        }
        case D_CREATE: {
          DM& d = D[(uint64_t)op.a[0] % 2];
          if (d.created)
            break;
          d.lib = (int)(op.a[1] & 1);
          Outcome o = attempt([&] { d.sb->create_sandbox(d.lib ? GUESTLIB_DIR "/libguest1.so" : GUESTLIB_DIR "/libguest0.so"); });
          d.created = o == OK;
          break;
        }
        case D_DESTROY: {
          DM& d = D[(uint64_t)op.a[0] % 2];
          if (!d.created)
            break;
          attempt([&] { d.sb->destroy_sandbox(); });
          d.created = false;
          break;
        }
        case D_INVOKE: {
          DM& d = D[(uint64_t)op.a[0] % 2];
          if (!d.created)
            break;
          c.probe("dylib_invoke");
          if (D[0].created && D[1].created && D[0].lib != D[1].lib)
            c.probe("two_dylib_instances_with_different_libraries");
          long a = (long)(int)op.a[2];
          int b = (int)(op.a[3] & 0xffff);
          unsigned short cc = (unsigned short)(op.a[3] >> 20);
          long got = 0;
          int id = -1;
          Outcome o = attempt([&] {
            got = d.sb->invoke_sandbox_function(g_add3, a, b, cc).UNSAFE_unverified();
            id = d.sb->invoke_sandbox_function(g_lib_id).UNSAFE_unverified();
            // a call the library makes to one of its own exported functions stays inside that library
            int id2 = d.sb->invoke_sandbox_function(g_lib_id_indirect).UNSAFE_unverified();
            if (id2 != id)
              id = 1000 + id2;
          });
          if (o == OK && (op.a[1] & 3) == 1) {
            // names that the process knows (the C++ runtime the application links, the application's own functions) but
            // that the sandbox's library does not export are not functions of the sandbox
            static const char* const kForeign[] = { "__cxa_demangle", "_ZSt9terminatev", "f_not_in_any_guest_library" };
            const char* nm = kForeign[((uint64_t)op.a[1] >> 2) % 3];
            void* addr = nullptr;
            Outcome lo = attempt([&] { addr = d.sb->lookup_symbol(nm); });
            c.probe("dylib_lookup_of_name_known_to_the_process_only");
            if (lo == OK && addr != nullptr)
              c.violate("C11", "function_outside_the_sandbox_library_resolved@dylib_invoke", "instance bound to libguest%d resolved %s, which that library does not export", d.lib, nm);
          }
          if (o != OK || id != d.lib || got != a + b + cc + 1000 * d.lib)
            c.violate("C11",
                      id != d.lib ? "wrong_library@dylib_invoke" : "wrong_result@dylib_invoke",
                      "instance bound to libguest%d: g_lib_id=%d g_add3=%ld expected %ld (%s)",
                      d.lib,
                      id,
                      got,
                      a + b + cc + 1000 * d.lib,
                      oname(o));
          break;
        }
        case I_LOOKUP_FAIL: {
          // the backend cannot resolve the name at this moment (F10): the invocation aborts before any guest code
          // runs, and a later invocation of the same name behaves normally
          if (!m.created)
            break;
          int fn = (op.a[1] & 1) ? FN_VOID : FN_ENUM;
          if (m.looked[fn])
            break;
          g_fault.lookup_fail = 1;
          size_t before = g_glog.size();
          Outcome o = attempt([&] {
            if (fn == FN_VOID)
              m.sb->invoke_sandbox_function(f_void);
            else
              m.sb->invoke_sandbox_function(f_enum, RED, true);
          });
          bool consumed = g_fault.lookup_fail == 0;
          g_fault.clear();
          c.ev("lookup_fails %s -> %s", kFnName[fn], oname(o));
          if (!consumed)
            break; // the name was already cached through another path
          if (o != ABORT || g_glog.size() != before)
            c.violate("C11", "failed_symbol_lookup_did_not_abort_cleanly@lookup_fails", "outcome %s, %zu guest records", oname(o), g_glog.size() - before);
          break;
        }
        case H_CBRET: {
          DM& d = D[(uint64_t)op.a[0] % 2];
          if ((op.a[1] & 1) && d.created)
            host_cbret<DSbx, true>(*d.sb, op, "dylib");
          else
            host_cbret<NSbx, false>(nsb, op, "noop");
          break;
        }
        case N_INVOKE: {
          long a = (long)op.a[2];
          int b = (int)op.a[3];
          unsigned short cc = (unsigned short)(op.a[3] >> 20);
          long got = 0;
          Outcome o = attempt([&] {
            got = nsb.template INTERNAL_invoke_with_func_ptr<decltype(g_add3)>("g_add3", reinterpret_cast<void*>(&g_add3), a, rlbox::tainted<int, NSbx>(b), cc).UNSAFE_unverified();
          });
          if (o != OK || got != g_add3(a, b, cc))
            c.violate("C11", "wrong_result@noop_invoke", "g_add3");
          // the address of a sandbox function as the static-call configuration obtains it: the backend's
          // representation of that same function (identity on noop)
          void* rep = nullptr;
          Outcome o2 = attempt([&] {
            auto fp = nsb.template INTERNAL_get_sandbox_function_ptr<decltype(g_add3)>(reinterpret_cast<void*>(&g_add3));
            rep = reinterpret_cast<void*>(fp.UNSAFE_sandboxed(nsb));
          });
          if (!c.stop && (o2 != OK || rep != reinterpret_cast<void*>(&g_add3)))
            c.violate("C11", "function_address_is_not_backend_representation@noop_invoke", "INTERNAL_get_sandbox_function_ptr(g_add3) (%s)", oname(o2));
          break;
        }
      }
    }
    for (auto& m : S) {
      m.cb.reset();
      m.cbc.reset();
      m.cbs.reset();
          m.cbe.reset();
          m.cbr.reset();
      if (m.created)
        attempt([&] { m.sb->destroy_sandbox(); });
    }
    for (auto& d : D)
      if (d.created)
        attempt([&] { d.sb->destroy_sandbox(); });
    attempt([&] { nsb.destroy_sandbox(); });
    S.clear();
    run_end();
    C = nullptr;
  }

  std::vector<Plan> regression_plans() override
  {
    // symbol cache: address of f_void obtained after / before f_void was invoked
    Plan a, b;
    a.cfg = b.cfg = { 1, 0 };
    Op v;
    v.kind = I_VOID;
    Op ad;
    ad.kind = A_ADDR;
    Op fn;
    fn.kind = I_FN;
    fn.a[1] = 1;
    a.ops = { v, ad, fn };
    b.ops = { ad, fn };
    return { a, b };
  }
};

int main(int argc, char** argv)
{
  libs().push_back(make_lib<0>());
  libs().push_back(make_lib<1>());
  install_crash_handlers("replays");
  install_segv_handler();
  InvokeWorld w;
  return sim_main(w, argc, argv);
}
