// World `threads` — property C18.
// 2..8 real threads, each with its own plan over its own sandbox objects of a
// shared backend type (sim with the registry flavour, so example-based
// translations walk the shared live-sandbox list; and noop with its
// thread_local "current sandbox" record).  A seeded scheduler (sim/sched.cpp,
// compiled without TSan) decides who runs at every yield point: every
// acquire/release of RLBox's shared locks (RLBOX_USE_CUSTOM_SHARED_LOCK), every
// entry into the backend stub / guest code, and between operations.  In the
// TSan build the only happens-before edges are RLBox's own synchronisation.
#include "../sim/sched.hpp"
#include <shared_mutex>

namespace simlock {
struct SharedLock
{
  simsched::LockModel model;
  std::shared_timed_mutex real;
};
struct SharedGuard
{
  SharedLock& l;
  explicit SharedGuard(SharedLock& x)
    : l(x)
  {
    simsched::lock_acquire(&l.model, true);
    l.real.lock_shared();
  }
  ~SharedGuard()
  {
    l.real.unlock_shared();
    simsched::lock_release(&l.model, true);
  }
};
struct UniqueGuard
{
  SharedLock& l;
  explicit UniqueGuard(SharedLock& x)
    : l(x)
  {
    simsched::lock_acquire(&l.model, false);
    l.real.lock();
  }
  ~UniqueGuard()
  {
    l.real.unlock();
    simsched::lock_release(&l.model, false);
  }
};
}
#define RLBOX_USE_CUSTOM_SHARED_LOCK
#define RLBOX_SHARED_LOCK(name) simlock::SharedLock name
#define RLBOX_ACQUIRE_SHARED_GUARD(name, ...) simlock::SharedGuard name(__VA_ARGS__)
#define RLBOX_ACQUIRE_UNIQUE_GUARD(name, ...) simlock::UniqueGuard name(__VA_ARGS__)

#ifdef TH_TIMING
// transition timing enabled (TSan build): the library's timing code runs too; its clock is a per-thread simulated one
#  include <chrono>
#  define RLBOX_MEASURE_TRANSITION_TIMES
namespace rlbox {
struct high_resolution_clock
{
  using duration = std::chrono::nanoseconds;
  using rep = duration::rep;
  using period = duration::period;
  using time_point = std::chrono::time_point<high_resolution_clock>;
  static constexpr bool is_steady = true;
  static time_point now() noexcept
  {
    static thread_local long long t = 0;
    t += 17;
    return time_point(duration(t));
  }
};
}
#endif
#include "../sim/world_common.hpp"
#include "rlbox_dylib_sandbox.hpp"
#include "rlbox_noop_sandbox.hpp"
#include <atomic>
#include <memory>
#include <thread>

#ifdef RLBOX_EMBEDDER_PROVIDES_TLS_STATIC_VARIABLES
RLBOX_NOOP_SANDBOX_STATIC_VARIABLES();
RLBOX_DYLIB_SANDBOX_STATIC_VARIABLES();
#endif
#ifndef GUESTLIB_DIR
#  define GUESTLIB_DIR "build"
#endif

using namespace sim;
using SimSbx = rlbox::rlbox_sim_sandbox;
using NoopSbx = rlbox::rlbox_noop_sandbox;
using DylibSbx = rlbox::rlbox_dylib_sandbox;

// ---- std::mutex inside the library (rlbox_sandbox::callback_lock) is a scheduling point like the shared locks: every
// pthread_mutex_lock / unlock made from this program's own code goes through the scheduler's lock model first
// (-Wl,--wrap; the C++ runtime's internal mutexes are not affected, the scheduler itself uses raw futexes) ----
#include <pthread.h>
extern "C" int __real_pthread_mutex_lock(pthread_mutex_t*);
extern "C" int __real_pthread_mutex_unlock(pthread_mutex_t*);
namespace {
thread_local bool t_in_mutex_wrap = false;
}
extern "C" int __wrap_pthread_mutex_lock(pthread_mutex_t* m)
{
  if (simsched::current_tid() >= 0 && !t_in_mutex_wrap) {
    t_in_mutex_wrap = true;
    simsched::mutex_acquire(m);
    t_in_mutex_wrap = false;
  }
  return __real_pthread_mutex_lock(m);
}
extern "C" int __wrap_pthread_mutex_unlock(pthread_mutex_t* m)
{
  int r = __real_pthread_mutex_unlock(m);
  if (simsched::current_tid() >= 0 && !t_in_mutex_wrap) {
    t_in_mutex_wrap = true;
    simsched::mutex_release(m);
    t_in_mutex_wrap = false;
  }
  return r;
}

// ---- ThreadSanitizer report hook (never called in the plain build) ----
static std::atomic<int> g_tsan_reports{ 0 };
extern "C" void __tsan_on_report(void*)
{
  g_tsan_reports.fetch_add(1);
}
#if defined(__SANITIZE_THREAD__)
#  define SIM_TSAN 1
#elif defined(__has_feature)
#  if __has_feature(thread_sanitizer)
#    define SIM_TSAN 1
#  endif
#endif
#ifdef SIM_TSAN
extern "C" __attribute__((used, visibility("default"))) const char* __tsan_default_options()
{
  return "exitcode=0:halt_on_error=0:report_signal_unsafe=0:die_after_fork=0:log_path=/dev/null";
}
#endif

extern "C" {
long g_multi(long (*cb)(long, unsigned), long a, unsigned b, int times);
int g_lib_id(void);
int g_lib_id_indirect(void);
int g_bump(void);
void g_reset(void);
}
// noop "guest": host code in this TU so that it can offer the token between callback calls
static long n_multi(long (*cb)(long, unsigned), long a, unsigned b, int times)
{
  unsigned long acc = 0;
  for (int i = 0; i < times; i++) {
    simsched::yield("guest");
    long r = cb(a + i, b);
    acc = acc * 31u + (unsigned long)r;
  }
  simsched::yield("guest");
  return (long)(acc & 0x7fffffffUL);
}
// a library that keeps the callback it was given and calls it later, from an entry point that takes only a scalar
static thread_local long (*t_stored_cb)(long, unsigned) = nullptr;
static void n_store(long (*cb)(long, unsigned))
{
  t_stored_cb = cb;
}
static long n_fire(long a)
{
  simsched::yield("guest");
  return t_stored_cb ? t_stored_cb(a, 9u) : -1;
}
static thread_local uint32_t t_stored_idx = 0;
extern "C" {
void g_store(long (*cb)(long, unsigned));
long g_fire(long a);
}
template<int LIB>
struct G
{
  static void store(uint32_t idx) { t_stored_idx = idx; }
  static int32_t fire(int32_t a)
  {
    SIM_YIELD("guest");
    return SimSbx::guest_call<int32_t, int32_t, uint32_t>(t_stored_idx, a, 9u);
  }
  static int32_t multi(uint32_t idx, int32_t a, uint32_t b, int32_t times)
  {
    uint32_t acc = 0;
    for (int i = 0; i < times; i++) {
      int32_t r = SimSbx::guest_call<int32_t, int32_t, uint32_t>(idx, a + i, b);
      acc = acc * 31u + (uint32_t)r;
    }
    return (int32_t)(acc & 0x7fffffffu);
  }
  static int32_t lib_id()
  {
    SIM_YIELD("guest");
    return LIB;
  }
};

enum Kind
{
  T_CREATE,
  T_DESTROY,
  T_PTR_ROUNDTRIP,
  T_REGISTER,
  T_UNREGISTER,
  T_INVOKE_CB,
  T_INVOKE_ID,
  T_MALLOC_FREE,
  T_YIELD,
  T_SHARED_REG,
  T_SHARED_UNREG,
  T_DYLIB,
  T_STORED_CB,
  T_RESET,
  K_COUNT
};
static const char* kKind[] = { "create", "destroy", "ptr_roundtrip", "register", "unregister", "invoke_cb", "invoke_id", "malloc_free", "yield",
                               "shared_register", "shared_unregister", "dylib_instance", "stored_callback_fired_later", "reset" };

// per-thread record of what callbacks saw
struct CbSeen
{
  void* sandbox;
  long a;
};
static thread_local std::vector<CbSeen>* t_cbseen = nullptr;
static thread_local std::function<void()>* t_cb_nested = nullptr;

template<class Sbx>
static rlbox::tainted<long, Sbx> cbT(rlbox::rlbox_sandbox<Sbx>& sb, rlbox::tainted<long, Sbx> a, rlbox::tainted<unsigned, Sbx>)
{
  if (t_cbseen)
    t_cbseen->push_back(CbSeen{ &sb, a.UNSAFE_unverified() });
  simsched::yield("callback_body");
  if (t_cb_nested && *t_cb_nested) {
    auto f = *t_cb_nested;
    *t_cb_nested = nullptr; // one level
    f();
  }
  return a.UNSAFE_unverified() % 1000;
}

// One sandbox object shared by all threads, used ONLY for callback registration / unregistration
// (the one part of a sandbox object RLBox guards with its own mutex).
using SharedSandbox = rlbox::rlbox_sandbox<SimSbx>;
using SharedOwner = rlbox::sandbox_callback<void (*)(), SimSbx>;
static SharedSandbox* g_shared = nullptr;
template<int N>
static void cbS(SharedSandbox&)
{}
static void (*const kSharedFns[3])(SharedSandbox&) = { &cbS<0>, &cbS<1>, &cbS<2> };

// the same with the real noop plug-in (its slot table is guarded by the plug-in's own lock)
using SharedNoop = rlbox::rlbox_sandbox<NoopSbx>;
using SharedNoopOwner = rlbox::sandbox_callback<void (*)(), NoopSbx>;
static SharedNoop* g_shared_noop = nullptr;
template<int N>
static void cbSN(SharedNoop&)
{}
static void (*const kSharedNoopFns[3])(SharedNoop&) = { &cbSN<0>, &cbSN<1>, &cbSN<2> };

struct ThreadResult
{
  Ctx ctx;
  uint64_t ops = 0;
  std::unique_ptr<SharedOwner> shared_own[3];
  std::unique_ptr<SharedNoopOwner> shared_noop_own[3];
};

template<class Sbx>
struct BTt;
template<>
struct BTt<SimSbx>
{
  static void create(rlbox::rlbox_sandbox<SimSbx>& sb, int lib) { sb.create_sandbox(lib); }
  template<class O>
  static long multi(rlbox::rlbox_sandbox<SimSbx>& sb, O& owner, long a, unsigned b, int times)
  {
    return sb.invoke_sandbox_function(g_multi, owner, a, b, times).UNSAFE_unverified();
  }
  static int lib_id(rlbox::rlbox_sandbox<SimSbx>& sb) { return sb.invoke_sandbox_function(g_lib_id).UNSAFE_unverified(); }
  template<class O>
  static void store(rlbox::rlbox_sandbox<SimSbx>& sb, O& owner) { sb.invoke_sandbox_function(g_store, owner); }
  static long fire(rlbox::rlbox_sandbox<SimSbx>& sb, long a) { return sb.invoke_sandbox_function(g_fire, a).UNSAFE_unverified(); }
  static long expect_acc(long a, int times)
  {
    uint32_t acc = 0;
    for (int i = 0; i < times; i++)
      acc = acc * 31u + (uint32_t)(int32_t)((a + i) % 1000);
    return (long)(int32_t)(acc & 0x7fffffffu);
  }
};
template<>
struct BTt<NoopSbx>
{
  static void create(rlbox::rlbox_sandbox<NoopSbx>& sb, int) { sb.create_sandbox(); }
  template<class O>
  static long multi(rlbox::rlbox_sandbox<NoopSbx>& sb, O& owner, long a, unsigned b, int times)
  {
    return sb.template INTERNAL_invoke_with_func_ptr<decltype(n_multi)>("n_multi", reinterpret_cast<void*>(&n_multi), owner, a, b, times).UNSAFE_unverified();
  }
  static int lib_id(rlbox::rlbox_sandbox<NoopSbx>&) { return -1; }
  template<class O>
  static void store(rlbox::rlbox_sandbox<NoopSbx>& sb, O& owner)
  {
    sb.template INTERNAL_invoke_with_func_ptr<decltype(n_store)>("n_store", reinterpret_cast<void*>(&n_store), owner);
  }
  static long fire(rlbox::rlbox_sandbox<NoopSbx>& sb, long a)
  {
    return sb.template INTERNAL_invoke_with_func_ptr<decltype(n_fire)>("n_fire", reinterpret_cast<void*>(&n_fire), a).UNSAFE_unverified();
  }
  static long expect_acc(long a, int times)
  {
    unsigned long acc = 0;
    for (int i = 0; i < times; i++)
      acc = acc * 31u + (unsigned long)((a + i) % 1000);
    return (long)(acc & 0x7fffffffUL);
  }
};

// One thread's workload over its own sandboxes
template<class Sbx>
static void thread_body(int tid, const std::vector<Op>& ops, ThreadResult& R)
{
  using Sandbox = rlbox::rlbox_sandbox<Sbx>;
  using Owner = rlbox::sandbox_callback<long (*)(long, unsigned), Sbx>;
  Ctx& c = R.ctx;
  g_ctx = &c;
  g_regions.clear();
  g_next_inst_id = tid * 1000;
  g_fault.clear();
  std::vector<CbSeen> seen;
  t_cbseen = &seen;
  std::function<void()> nested;
  t_cb_nested = &nested;
  struct SB
  {
    std::unique_ptr<Sandbox> sb;
    bool created = false;
    int lib = 0;
    std::unique_ptr<Owner> own;
    rlbox::tainted<int**, Sbx> cell = nullptr;
    rlbox::tainted<int*, Sbx> obj = nullptr;
  };
  SB S[2];
  for (auto& s : S)
    s.sb = std::make_unique<Sandbox>();
  // threads 0..3 also own an instance of the real dylib plug-in, each on a library file of its own
  // (the four files export the same symbols)
  std::unique_ptr<rlbox::rlbox_sandbox<DylibSbx>> dsb;
  bool dsb_created = false;
  int dsb_count = 0;
  auto viol = [&](const char* cls, const char* detail) {
    Violation v;
    v.prop = "C18";
    v.cls = cls;
    v.detail = std::string("thread ") + std::to_string(tid) + ": " + detail;
    c.violations.push_back(v);
    c.ev("DEVIATION C18:%s", cls);
  };
  for (size_t i = 0; i < ops.size(); i++) {
    const Op& op = ops[i];
    SB& s = S[(uint64_t)op.a[1] % 2];
    R.ops++;
    c.ev("t%d op %s %lld", tid, kKind[op.kind], (long long)op.a[1]);
    c.st.opcount[kKind[op.kind]]++;
    simsched::yield("between_ops");
    switch (op.kind) {
      case T_CREATE: {
        if (s.created)
          break;
        s.lib = (int)(op.a[2] & 1);
        Outcome o = attempt([&] { BTt<Sbx>::create(*s.sb, s.lib); });
        if (o != OK) {
          viol("create_fails@create", g_last_abort_msg.c_str());
          break;
        }
        s.created = true;
        Outcome o2 = attempt([&] {
          s.cell = s.sb->template malloc_in_sandbox<int*>();
          s.obj = s.sb->template malloc_in_sandbox<int>(4);
        });
        if (o2 != OK || !s.cell || !s.obj)
          viol("allocation_fails@create", g_last_abort_msg.c_str());
        if (op.a[3] != 0) {
          Outcome o3 = attempt([&] { s.own = std::make_unique<Owner>(s.sb->register_callback(cbT<Sbx>)); });
          if (o3 != OK)
            viol("register_fails@create", g_last_abort_msg.c_str());
        }
        break;
      }
      case T_DESTROY: {
        if (!s.created)
          break;
        s.own.reset();
        Outcome o = attempt([&] { s.sb->destroy_sandbox(); });
        s.created = false;
        if (o != OK)
          viol("destroy_fails@destroy", g_last_abort_msg.c_str());
        break;
      }
      case T_PTR_ROUNDTRIP: {
        if (!s.created || !s.cell)
          break;
        // store a pointer through the cell and read it back: both translations are example based
        rlbox::tainted<int*, Sbx> p = s.obj + (int)((uint64_t)op.a[2] % 4);
        rlbox::tainted<int*, Sbx> q = nullptr;
        if constexpr (std::is_same_v<Sbx, SimSbx>)
          SimSbx::last_registry_inst = -2;
        Outcome o = attempt([&] {
          *s.cell = p;
          simsched::yield("between_store_and_load");
          q = *s.cell;
        });
        if (o == OK && s.own && (op.a[3] & 1)) {
          // the entry point of the thread's registered callback is written into (and read back from) its sandbox's memory
          auto fcell = rlbox::sandbox_reinterpret_cast<long (**)(long, unsigned)>(s.cell);
          rlbox::tainted<long (*)(long, unsigned), Sbx> back = nullptr;
          Outcome o2 = attempt([&] {
            *fcell = *s.own;
            simsched::yield("between_store_and_load");
            back = *fcell;
          });
          c.probe("callback_entry_point_stored_in_sandbox_memory");
          if (o2 != OK)
            viol("callback_store_fails@ptr_roundtrip", g_last_abort_msg.c_str());
          else if (back == nullptr)
            viol("callback_entry_point_lost@ptr_roundtrip", "the entry point written to sandbox memory reads back as null");
          attempt([&] { *s.cell = p; });
        }
        if (o != OK)
          viol("pointer_store_load_fails@ptr_roundtrip", g_last_abort_msg.c_str());
        else if (q.UNSAFE_unverified() != p.UNSAFE_unverified())
          viol("pointer_translated_relative_to_another_sandbox@ptr_roundtrip", "loaded pointer differs from the stored one");
        if constexpr (std::is_same_v<Sbx, SimSbx>) {
          if (o == OK && SimSbx::last_registry_inst != -2 && SimSbx::last_registry_inst != s.sb->get_sandbox_impl()->inst_id)
            viol("registry_answered_with_another_sandbox@ptr_roundtrip", "the live-sandbox registry resolved an address of this thread's sandbox to a different sandbox object");
        }
        break;
      }
      case T_REGISTER: {
        if (!s.created || s.own)
          break;
        Outcome o = attempt([&] { s.own = std::make_unique<Owner>(s.sb->register_callback(cbT<Sbx>)); });
        if (o != OK)
          viol("register_fails@register", g_last_abort_msg.c_str());
        break;
      }
      case T_UNREGISTER: {
        if (!s.own)
          break;
        Outcome o = attempt([&] { s.own.reset(); });
        if (o != OK)
          viol("unregister_fails@unregister", g_last_abort_msg.c_str());
        break;
      }
      case T_INVOKE_CB: {
        if (!s.created || !s.own)
          break;
        seen.clear();
        long a = 100 + (long)((uint64_t)op.a[2] % 5000);
        int times = 1 + (int)((uint64_t)op.a[3] % 3);
        // optional nested invoke on the thread's other sandbox from inside the first callback body
        SB& other = S[1 - (uint64_t)op.a[1] % 2];
        bool nest = (op.a[4] & 1) && other.created && other.own;
        // ... or the first callback body destroys the thread's other sandbox (and the guest then calls back again)
        bool destroy_other = !nest && (op.a[4] & 2) && other.created;
        long nested_got = -1;
        if (nest)
          nested = [&] { nested_got = BTt<Sbx>::multi(*other.sb, *other.own, 7, 1u, 1); };
        if (destroy_other) {
          times = times < 2 ? 2 : times;
          nested = [&] {
            other.own.reset();
            other.sb->destroy_sandbox();
            other.created = false;
            c.probe("other_sandbox_destroyed_inside_a_callback");
          };
        }
        long got = 0;
        Outcome o = attempt([&] { got = BTt<Sbx>::multi(*s.sb, *s.own, a, 3u, times); });
        nested = nullptr;
        if (o != OK) {
          viol("invoke_with_callback_fails@invoke_cb", g_last_abort_msg.c_str());
          break;
        }
        size_t want_calls = (size_t)times + (nest ? 1 : 0);
        bool ok = seen.size() == want_calls && got == BTt<Sbx>::expect_acc(a, times);
        size_t k = 0;
        for (int i = 0; ok && i < times; i++) {
          ok = seen[k].sandbox == s.sb.get() && seen[k].a == a + i;
          k++;
          if (nest && i == 0) {
            ok = ok && seen[k].sandbox == other.sb.get() && seen[k].a == 7;
            k++;
          }
        }
        if (!ok)
          viol("callback_saw_wrong_sandbox_or_values@invoke_cb", "a callback ran with another sandbox reference, other arguments, or the wrong number of times");
        if (nest)
          c.probe("nested_invoke_on_second_sandbox_of_thread");
        break;
      }
      case T_INVOKE_ID: {
        if (!s.created)
          break;
        if constexpr (std::is_same_v<Sbx, SimSbx>) {
          int id = -2;
          Outcome o = attempt([&] { id = BTt<Sbx>::lib_id(*s.sb); });
          if (o != OK || id != s.lib)
            viol("wrong_library@invoke_id", "invocation by name reached another instance's library");
        }
        break;
      }
      case T_MALLOC_FREE: {
        if (!s.created)
          break;
        Outcome o = attempt([&] {
          auto p = s.sb->template malloc_in_sandbox<long long>(2);
          simsched::yield("between_malloc_and_free");
          if (p)
            s.sb->free_in_sandbox(p);
        });
        if (o != OK)
          viol("malloc_free_fails@malloc_free", g_last_abort_msg.c_str());
        break;
      }
      case T_YIELD:
        simsched::yield("explicit");
        break;
      case T_SHARED_REG: {
        if (g_shared_noop) {
          int f = (int)((uint64_t)op.a[2] % 3);
          if (R.shared_noop_own[f])
            break;
          std::unique_ptr<SharedNoopOwner> fresh;
          Outcome o = attempt([&] { fresh = std::make_unique<SharedNoopOwner>(g_shared_noop->register_callback(kSharedNoopFns[f])); });
          c.probe("registration_on_shared_sandbox");
          c.probe("registration_on_shared_noop_sandbox");
          if (o == OK) {
            int n = simsched::shared_add(f, +1);
            R.shared_noop_own[f] = std::move(fresh);
            if (n > 1)
              viol("two_live_owners_for_one_function@shared_register", "a registration was accepted while another thread holds a live registration of the same function");
          }
          break;
        }
        if (!g_shared)
          break;
        int f = (int)((uint64_t)op.a[2] % 3);
        if (R.shared_own[f])
          break;
        std::unique_ptr<SharedOwner> fresh;
        Outcome o = attempt([&] { fresh = std::make_unique<SharedOwner>(g_shared->register_callback(kSharedFns[f])); });
        c.probe("registration_on_shared_sandbox");
        if (o == OK) {
          int n = simsched::shared_add(f, +1);
          R.shared_own[f] = std::move(fresh);
          if (n > 1)
            viol("two_live_owners_for_one_function@shared_register", "a registration was accepted while another thread holds a live registration of the same function");
        }
        break;
      }
      case T_RESET: {
        if (!s.created)
          break;
        Outcome o = attempt([&] { s.sb->reset_sandbox(); });
        c.probe("sandbox_reset");
        if (o != OK)
          viol("reset_fails@reset", g_last_abort_msg.c_str());
        break;
      }
      case T_STORED_CB: {
        if (!s.created || !s.own)
          break;
        seen.clear();
        long a = 100 + (long)((uint64_t)op.a[2] % 5000);
        long got = 0;
        // optionally fired from inside a callback of the thread's other sandbox
        SB& other = S[1 - (uint64_t)op.a[1] % 2];
        bool from_other = (op.a[4] & 1) && other.created && other.own;
        Outcome o = attempt([&] {
          BTt<Sbx>::store(*s.sb, *s.own);
          simsched::yield("between_store_and_fire");
          if (from_other) {
            nested = [&] { got = BTt<Sbx>::fire(*s.sb, a); };
            BTt<Sbx>::multi(*other.sb, *other.own, 3, 1u, 1);
            nested = nullptr;
          } else
            got = BTt<Sbx>::fire(*s.sb, a);
        });
        nested = nullptr;
        c.probe("callback_stored_by_the_library_and_fired_by_a_scalar_only_entry_point");
        if (o != OK) {
          viol("invoke_with_callback_fails@stored_callback_fired_later", g_last_abort_msg.c_str());
          break;
        }
        // the stored callback ran exactly once, for sandbox s (after the other sandbox's body when fired from there)
        size_t want = from_other ? 2 : 1;
        const CbSeen* mine = seen.size() == want ? &seen[want - 1] : nullptr;
        if (!mine || mine->sandbox != s.sb.get() || mine->a != a || got != a % 1000)
          viol("callback_saw_wrong_sandbox_or_values@stored_callback_fired_later", "a callback kept by the library ran with another sandbox reference, other arguments, or not exactly once");
        break;
      }
      case T_DYLIB: {
        if (tid > 3)
          break;
        static const char* const kLibs[4] = { GUESTLIB_DIR "/libguest0.so", GUESTLIB_DIR "/libguest1.so", GUESTLIB_DIR "/libguest2.so", GUESTLIB_DIR "/libguest3.so" };
        int what = (int)((uint64_t)op.a[2] % 8);
        if (!dsb_created) {
          if (!dsb)
            dsb = std::make_unique<rlbox::rlbox_sandbox<DylibSbx>>();
          Outcome o = attempt([&] {
            dsb->create_sandbox(kLibs[tid]);
            dsb->invoke_sandbox_function(g_reset);
          });
          if (o != OK) {
            viol("create_fails@dylib_instance", g_last_abort_msg.c_str());
            break;
          }
          dsb_created = true;
          dsb_count = 0;
          c.probe("dylib_instance_per_thread");
        } else if (what == 0) {
          Outcome o = attempt([&] { dsb->destroy_sandbox(); });
          dsb_created = false;
          if (o != OK)
            viol("destroy_fails@dylib_instance", g_last_abort_msg.c_str());
          break;
        }
        int id = -1, id2 = -1, n1 = -1, n2 = -1;
        Outcome o = attempt([&] {
          id = dsb->invoke_sandbox_function(g_lib_id).UNSAFE_unverified();
          n1 = dsb->invoke_sandbox_function(g_bump).UNSAFE_unverified();
          simsched::yield("between_dylib_calls");
          id2 = dsb->invoke_sandbox_function(g_lib_id_indirect).UNSAFE_unverified();
          n2 = dsb->invoke_sandbox_function(g_bump).UNSAFE_unverified();
        });
        if (o != OK)
          viol("invoke_fails@dylib_instance", g_last_abort_msg.c_str());
        else if (id != tid || id2 != tid)
          viol("wrong_library@dylib_instance", "a function of this thread's library instance ran code of another instance's library");
        else if (n1 != dsb_count + 1 || n2 != dsb_count + 2)
          viol("library_state_shared_between_instances@dylib_instance", "the library's own counter moved by something else than this thread's calls");
        dsb_count += 2;
        break;
      }
      case T_SHARED_UNREG: {
        int f = (int)((uint64_t)op.a[2] % 3);
        if (g_shared_noop) {
          if (!R.shared_noop_own[f])
            break;
          simsched::shared_add(f, -1);
          Outcome o = attempt([&] { R.shared_noop_own[f].reset(); });
          if (o != OK)
            viol("unregister_fails@shared_unregister", g_last_abort_msg.c_str());
          break;
        }
        if (!g_shared || !R.shared_own[f])
          break;
        simsched::shared_add(f, -1); // from here on another thread may legitimately be accepted
        Outcome o = attempt([&] { R.shared_own[f].reset(); });
        if (o != OK)
          viol("unregister_fails@shared_unregister", g_last_abort_msg.c_str());
        break;
      }
    }
  }
  // teardown of this thread's objects
  for (auto& s : S) {
    attempt([&] { s.own.reset(); });
    if (s.created)
      attempt([&] { s.sb->destroy_sandbox(); });
    s.created = false;
  }
  // quiescent for this thread: none of its (destroyed) sandbox objects may still be listed in the registry
  if constexpr (std::is_same_v<Sbx, SimSbx>) {
    for (auto& s : S)
      if (s.sb && SimSbx::destroyed_object_still_listed(s.sb->get_sandbox_impl()))
        viol("destroyed_sandbox_still_in_registry@teardown", "an object of this thread is still listed after its destroy_sandbox");
  }
  for (auto& s : S)
    s.sb.reset();
  if (dsb_created)
    attempt([&] { dsb->destroy_sandbox(); });
  dsb.reset();
  graveyard_release();
  g_regions.clear();
  t_cbseen = nullptr;
  t_cb_nested = nullptr;
  g_ctx = nullptr;
}

struct ThreadsWorld : World
{
  const char* name() const override { return "threads"; }
  const char* op_name(int k) const override { return kKind[k]; }
  int op_kind_count() const override { return K_COUNT; }
  std::set<uint64_t> schedules;
  uint64_t tot_switches = 0, tot_lock_waits = 0, tot_overlap = 0, tot_decisions = 0;

  Plan generate(Rng& r, bool thorough) override
  {
    Plan p;
    int nthreads = (int)r.range(2, thorough ? 8 : 5);
    int bias = (int)r.below(3);
    int mix = (int)r.below(3); // 0 all sim, 1 all noop, 2 alternate
    int shared = r.chance(1, 3) ? (r.chance(1, 3) ? 2 : 1) : 0; // 1: shared sim sandbox, 2: shared noop sandbox (registration only)
    p.cfg = { nthreads, bias, mix, (int64_t)(r.next() >> 2), (int64_t)r.below(2), shared };
    int n = (int)r.range(6, thorough ? 60 : 36);
    std::vector<unsigned> w = { 10, 6, 12, 6, 3, 10, 5, 4, 2, (unsigned)(shared ? 16 : 0), (unsigned)(shared ? 10 : 0), (unsigned)(r.chance(1, 2) ? 8 : 0), 5, 3 };
    if (shared && r.chance(1, 2)) {
      // swarm mode "registration focus": (almost) nothing but registrations and releases on the shared sandbox, so that
      // several threads are inside register_callback / unregister_callback of the same function at the same time
      w = { 0, 0, 1, 0, 0, 1, 0, 0, 2, 20, 16, 0, 0, 0 };
      n = (int)r.range(20, thorough ? 90 : 60);
    }
    // every thread starts by creating a sandbox
    for (int t = 0; t < nthreads; t++) {
      Op o;
      o.kind = T_CREATE;
      o.a[0] = t;
      o.a[1] = (int64_t)r.below(2);
      o.a[2] = (int64_t)r.below(2);
      o.a[3] = 1;
      p.ops.push_back(o);
    }
    for (int i = 0; i < n; i++) {
      Op o;
      o.kind = (int)r.weighted(w);
      o.a[0] = (int64_t)r.below((uint64_t)nthreads);
      o.a[1] = (int64_t)r.below(2);
      o.a[2] = (int64_t)r.below(10000);
      o.a[3] = (int64_t)r.below(3);
      o.a[4] = (int64_t)r.below(4);
      p.ops.push_back(o);
    }
    return p;
  }

  void run(const Plan& p, Ctx& c) override
  {
    int nthreads = p.cfg.empty() ? 2 : (int)p.cfg[0];
    if (nthreads < 1)
      nthreads = 1;
    if (nthreads > 16)
      nthreads = 16;
    int bias = p.cfg.size() > 1 ? (int)((uint64_t)p.cfg[1] % 3) : 0;
    int mix = p.cfg.size() > 2 ? (int)((uint64_t)p.cfg[2] % 3) : 0;
    uint64_t sseed = p.cfg.size() > 3 ? (uint64_t)p.cfg[3] : 1;
    SimSbx::cfg = SimSbx::Config();
    SimSbx::forget_finder(); // (what an earlier run of this process captured is not part of this run)
    SimSbx::cfg.size = 4096;
    SimSbx::cfg.registry = true;
    SimSbx::cfg.slots = 4;
    SimSbx::cfg.reuse = p.cfg.size() > 4 && p.cfg[4]; // memory of a destroyed sandbox may be handed to another thread's create
    std::vector<std::vector<Op>> per((size_t)nthreads);
    for (auto& op : p.ops)
      per[(uint64_t)op.a[0] % (uint64_t)nthreads].push_back(op);
    std::vector<std::unique_ptr<ThreadResult>> R;
    for (int t = 0; t < nthreads; t++)
      R.push_back(std::make_unique<ThreadResult>());
    int tsan_before = g_tsan_reports.load();
    bool shared = p.cfg.size() > 5 && p.cfg[5] == 1;
    bool shared_noop = p.cfg.size() > 5 && p.cfg[5] == 2;
    std::unique_ptr<SharedSandbox> shared_sb;
    std::unique_ptr<SharedNoop> shared_noop_sb;
    simsched::shared_reset();
    if (shared_noop) {
      shared_noop_sb = std::make_unique<SharedNoop>();
      shared_noop_sb->create_sandbox();
      g_shared_noop = shared_noop_sb.get();
    }
    if (shared) {
      g_regions.clear();
      g_next_inst_id = 900000;
      shared_sb = std::make_unique<SharedSandbox>();
      // half of the runs: fewer entry points (2) than functions in the pool (3), so that registrations are refused and
      // rolled back while other threads register
      int keep_slots = SimSbx::cfg.slots;
      if (sseed & 1) {
        SimSbx::cfg.slots = 2;
        c.probe("shared_sandbox_with_fewer_entries_than_functions");
      }
      shared_sb->create_sandbox(0);
      SimSbx::cfg.slots = keep_slots;
      g_shared = shared_sb.get();
    }
    simsched::init(sseed, nthreads, bias, 200000);
    g_yield = [](const char* w) { simsched::yield(w); };
    std::vector<std::thread> th;
    for (int t = 0; t < nthreads; t++) {
      bool use_sim = mix == 0 || (mix == 2 && (t & 1) == 0);
      th.emplace_back([&, t, use_sim] {
        simsched::thread_begin(t);
        try {
          if (use_sim)
            thread_body<SimSbx>(t, per[(size_t)t], *R[(size_t)t]);
          else
            thread_body<NoopSbx>(t, per[(size_t)t], *R[(size_t)t]);
        } catch (...) {
          Violation v;
          v.prop = "C18";
          v.cls = "unexpected_exception@thread";
          v.detail = "thread " + std::to_string(t);
          R[(size_t)t]->ctx.violations.push_back(v);
        }
        simsched::thread_end(t);
      });
    }
    simsched::run_all();
    for (auto& t : th)
      t.join();
    g_yield = nullptr;
    if (shared_noop) {
      // quiescent: live owners hold pairwise distinct, non-null entry points
      std::set<uintptr_t> entries;
      int live_owners = 0;
      for (auto& r : R)
        for (int f = 0; f < 3; f++)
          if (r->shared_noop_own[f] && !r->shared_noop_own[f]->is_unregistered()) {
            live_owners++;
            entries.insert((uintptr_t)r->shared_noop_own[f]->UNSAFE_sandboxed(*shared_noop_sb));
          }
      c.probe("shared_sandbox_registrations_from_several_threads");
      if ((int)entries.size() != live_owners || entries.count(0))
        c.violate("C13", "two_registrations_share_entry_point@shared_sandbox", "%d live owners on the shared noop sandbox hold %zu distinct entry points", live_owners, entries.size());
      Outcome o = attempt([&] {
        for (auto& r : R)
          for (auto& ow : r->shared_noop_own)
            ow.reset();
      });
      if (o != OK && !c.stop)
        c.violate("C13", "release_of_owner_aborts@shared_sandbox", "%s", g_last_abort_msg.c_str());
      attempt([&] { shared_noop_sb->destroy_sandbox(); });
      g_shared_noop = nullptr;
      shared_noop_sb.reset();
    }
    if (shared) {
      // quiescent: the functions reachable from the shared sandbox must be exactly those with a live owner
      SimSbx* impl = shared_sb->get_sandbox_impl();
      std::set<void*> in_table, owned;
      for (auto& e : impl->table)
        if (e.kind == 2)
          in_table.insert(e.key);
      int live_owners = 0;
      bool entry_ok = true;
      for (auto& r : R)
        for (int f = 0; f < 3; f++)
          if (r->shared_own[f] && !r->shared_own[f]->is_unregistered()) {
            owned.insert((void*)kSharedFns[f]);
            live_owners++;
            // the owner's own entry point must still reach its function
            auto idx = (size_t)r->shared_own[f]->UNSAFE_sandboxed(*shared_sb);
            if (idx >= impl->table.size() || impl->table[idx].kind != 2 || impl->table[idx].key != (void*)kSharedFns[f])
              entry_ok = false;
          }
      if (!entry_ok)
        c.violate("C13", "live_owner_entry_point_does_not_reach_its_function@shared_sandbox", "the entry point held by a live owner is vacant or bound to another function");
      c.probe("shared_sandbox_registrations_from_several_threads");
      if (!c.stop && (in_table != owned || (int)owned.size() != live_owners))
        c.violate("C13",
                  "reachable_set_differs_from_live_owners@shared_sandbox",
                  "%zu functions reachable from the shared sandbox, %d live owners of %zu distinct functions",
                  in_table.size(),
                  live_owners,
                  owned.size());
      Outcome o = attempt([&] {
        for (auto& r : R)
          for (auto& o : r->shared_own)
            o.reset();
      });
      if (o != OK && !c.stop)
        c.violate("C13", "release_of_owner_aborts@shared_sandbox", "%s", g_last_abort_msg.c_str());
      attempt([&] { shared_sb->destroy_sandbox(); });
      g_shared = nullptr;
      shared_sb.reset();
      graveyard_release();
      g_regions.clear();
    }
    pool_release();
    simsched::Result sr = simsched::result();
    c.ev("threads=%d bias=%d mix=%d decisions=%llu switches=%llu schedule=%016llx",
         nthreads,
         bias,
         mix,
         (unsigned long long)sr.decisions,
         (unsigned long long)sr.context_switches,
         (unsigned long long)sr.schedule_hash);
    for (int t = 0; t < nthreads; t++) {
      c.ev("t%d log=%016llx ops=%llu", t, (unsigned long long)R[(size_t)t]->ctx.hash, (unsigned long long)R[(size_t)t]->ops);
      c.st.merge(R[(size_t)t]->ctx.st);
      if (R[(size_t)t]->ctx.nontrivial)
        c.nontrivial = true;
      for (auto& v : R[(size_t)t]->ctx.violations) {
        Violation vv = v;
        vv.op_index = -1;
        if (c.known && c.known->count(vv.prop + ":" + vv.cls)) {
          c.st.known[vv.prop + ":" + vv.cls]++;
          continue;
        }
        c.violations.push_back(vv);
        c.stop = true;
      }
    }
    c.st.steps += sr.decisions;
    schedules.insert(sr.schedule_hash);
    tot_switches += sr.context_switches;
    tot_lock_waits += sr.lock_waits;
    tot_overlap += sr.overlaps_list_lock;
    tot_decisions += sr.decisions;
    if (sr.context_switches > 0)
      c.nontrivial = true;
    if (sr.lock_waits)
      c.probe("thread_waited_for_rlbox_lock");
    if (sr.overlaps_list_lock)
      c.probe("thread_descheduled_while_holding_rlbox_lock");
    if (sr.yield_budget_exceeded)
      c.violate("C18", "no_progress_within_step_budget@run", "more than 200000 scheduling decisions");
    int races = g_tsan_reports.load() - tsan_before;
    if (races > 0) {
      c.violate("C18", "data_race_reported_by_tsan@run", "%d ThreadSanitizer reports in this run (replay with TSAN_OPTIONS=log_path=stderr to see the stacks)", races);
      // with a sandbox shared for registration, a race is (also) a race in the registration bookkeeping
      if (shared || shared_noop)
        c.violate("C13", "data_race_in_registration_bookkeeping_reported_by_tsan@shared_sandbox", "%d ThreadSanitizer reports in a run in which threads register and release callbacks on one sandbox", races);
    }
  }

  std::string extra_summary() override
  {
    std::string s = "\"set:schedules\":[";
    bool first = true;
    size_t k = 0;
    for (auto h : schedules) {
      if (k++ > 200000)
        break;
      s += (first ? "\"" : ",\"") + hex64(h) + "\"";
      first = false;
    }
    s += "],\"context_switches\":" + std::to_string(tot_switches) + ",\"lock_waits\":" + std::to_string(tot_lock_waits) +
         ",\"descheduled_holding_lock\":" + std::to_string(tot_overlap) + ",\"scheduling_decisions\":" + std::to_string(tot_decisions);
    return s;
  }
};

int main(int argc, char** argv)
{
  libs().push_back({ { "g_multi", (void*)&G<0>::multi }, { "g_lib_id", (void*)&G<0>::lib_id }, { "g_store", (void*)&G<0>::store }, { "g_fire", (void*)&G<0>::fire } });
  libs().push_back({ { "g_fire", (void*)&G<1>::fire }, { "g_lib_id", (void*)&G<1>::lib_id }, { "g_store", (void*)&G<1>::store }, { "g_multi", (void*)&G<1>::multi } });
  install_crash_handlers("replays");
  install_segv_handler();
  ThreadsWorld w;
  g_run_alarm_s = 120; // hand-offs go through the OS scheduler: leave room for a heavily loaded machine
  return sim_main(w, argc, argv);
}
