// World `bulk` — property C10.
// Two live sim sandboxes; every operation's footprint is observed as a
// byte-wise diff of both regions (guest view), the application buffers, their
// red zones and the canary pages around the regions; in trap-MMU runs the set
// of addresses RLBox touched in the target region is observed too.
#include "../sim/world_common.hpp"
#include "../sim/mmu.hpp"
#include "../sim/aligned_new.hpp"
#include <memory>

using namespace sim;
using Sbx = rlbox::rlbox_sim_sandbox;
using Sandbox = rlbox::rlbox_sandbox<Sbx>;
template<class T>
using TP = rlbox::tainted<T*, Sbx>;

extern "C" void* __real_malloc(size_t);
static int g_host_malloc_fail = 0;
extern "C" void* __wrap_malloc(size_t n)
{
  if (g_host_malloc_fail > 0) {
    g_host_malloc_fail--;
    if (g_ctx)
      g_ctx->fired("F5_host_malloc_null");
    return nullptr;
  }
  (void)&__real_malloc;
  return sim_aligned_alloc_nothrow(n); // see sim/aligned_new.hpp (malloc is declared nothrow: report failure as NULL)
}

extern "C" void __real_free(void*);
static void* g_watch_free = nullptr;
static int g_watch_freed = 0;
extern "C" void __wrap_free(void* p)
{
  if (p && p == g_watch_free)
    g_watch_freed++;
  __real_free(p);
}

enum Kind
{
  B_MEMSET,
  B_MEMCPY_APP,
  B_MEMCPY_SBX,
  B_MEMCMP,
  B_RANGE,
  B_STRING,
  B_BUFADDR,
  B_UNVERIFIED_PTR,
  B_GRANT,
  B_DENY,
  B_MEMCMP_CELL,
  K_COUNT
};
static const char* kKind[] = { "memset", "memcpy_from_app", "memcpy_from_sandbox", "memcmp", "range", "string", "buffer_address", "unverified_safe_pointer", "grant_access", "deny_access", "memcmp_through_pointer_cell" };
static_assert(sizeof(kKind) / sizeof(kKind[0]) == K_COUNT);

enum Expect
{
  MUST_PROCEED,
  MUST_ABORT,
  EITHER
};

struct BulkWorld : World
{
  const char* name() const override { return "bulk"; }
  const char* op_name(int k) const override { return kKind[k]; }
  int op_kind_count() const override { return K_COUNT; }

  static int64_t extent_class(Rng& r, int64_t S, int64_t room)
  {
    // room = bytes from start to the end of the region
    switch ((unsigned)r.below(14)) {
      case 0:
        return 0;
      case 1:
        return 1;
      case 2:
        return room;
      case 3:
        return room + 1;
      case 4:
        return room - 1 > 0 ? room - 1 : 1;
      case 5:
        return S;
      case 6:
        return S + 1;
      case 7:
        return 0xFFFFFFFFLL;
      case 8:
        return 0x100000000LL;
      case 9:
        return (1LL << 61) + 1;
      case 10:
        return -1; // 2^64-1 as unsigned / negative as signed
      case 11:
        return (1LL << 62) + 2;
      default:
        return r.range(1, room > 1 ? room : 1);
    }
  }

  Plan generate(Rng& r, bool thorough) override
  {
    Plan p;
    int registry = r.chance(1, 2);
    int mmu = r.chance(1, 6);
    int deny_in_place = r.chance(1, 2);
    // regions of 256 B / 1 KiB sit inside one page, application bytes on the same page before and behind them
    int logsz = mmu || r.chance(1, 2) ? 12 : r.chance(1, 2) ? 10 : 8;
    int slot = (int)r.below(16);
    int single = r.chance(1, 3);
    p.cfg = { logsz, registry, mmu, deny_in_place, slot, single };
    int64_t S = 1LL << logsz;
    int n = (int)r.range(2, thorough ? 24 : 12);
    std::vector<unsigned> w = { 8, 8, 8, 6, 8, 5, 6, 8, 6, 7, (unsigned)(mmu ? 10 : 0) };
    for (auto& x : w)
      if (r.chance(1, 5))
        x = 0;
    if (w[B_MEMSET] + w[B_RANGE] == 0)
      w[B_MEMSET] = 5;
    for (int i = 0; i < n; i++) {
      Op o;
      o.kind = (int)r.weighted(w);
      // a[0] start class, a[1] start offset, a[2] extent, a[3] element type / operand form, a[4] second start, a[5] fault
      unsigned sc = (unsigned)r.below(10);
      int64_t off = sc == 0 ? 0 : sc == 1 ? S - 1 : sc == 2 ? S - (int64_t)r.range(1, 16) : sc == 3 ? 16 : (int64_t)r.below((uint64_t)S);
      if (mmu && off < S - 200)
        off = S - (int64_t)r.range(1, 200); // every access traps: keep the footprints short
      o.a[0] = sc == 9 ? 1 : 0; // 1 = null start
      o.a[1] = off;
      o.a[2] = extent_class(r, S, S - off);
      o.a[3] = (int64_t)r.below(16);
      unsigned sc2 = (unsigned)r.below(8);
      o.a[4] = sc2 == 0 ? S - (int64_t)r.range(1, 16) : sc2 == 1 ? -(int64_t)r.range(1, 16) /* app memory just before the region */
                                                              : (int64_t)r.below((uint64_t)S);
      o.a[5] = (int64_t)r.below(16);
      p.ops.push_back(o);
    }
    return p;
  }

  // ------------------------------------------------------------ state
  std::unique_ptr<Sandbox> sb[2];
  Sbx* impl[2];
  int NS = 2; // live sandboxes in this run: 2, or exactly 1 (the registry then has a single entry)
  size_t S = 0;
  bool mmu_on = false, registry = false;
  Ctx* C = nullptr;
  // application buffer arena with red zones (page aligned so that it never straddles a region-sized block)
  uint8_t* arena = nullptr;
  static constexpr size_t ARENA = 3 * 4096;
  uint8_t* appbuf = nullptr; // arena + 4096 + 64, 2048 usable, red zones around
  static constexpr size_t APPMAX = 2048;

  struct Snap
  {
    std::vector<uint8_t> reg[2];
    std::vector<uint8_t> before[2], after[2]; // canary pages around the regions
    std::vector<uint8_t> app;
  };
  Snap snap()
  {
    Snap s;
    for (int i = 0; i < NS; i++) {
      s.reg[i].assign(impl[i]->mem.gbase, impl[i]->mem.gbase + S);
      s.before[i].assign(impl[i]->mem.base - 4096, impl[i]->mem.base);
      s.after[i].assign(impl[i]->mem.base + S, impl[i]->mem.base + S + 4096);
    }
    s.app.assign(arena, arena + ARENA);
    return s;
  }
  // returns false and reports when something outside the allowed ranges changed
  struct Range
  {
    int where; // 0/1 region index, 2 application arena
    size_t off, len;
  };
  bool diff_ok(const Snap& a, const Snap& b, const std::vector<Range>& allowed, const char* opn)
  {
    auto ok = [&](int where, size_t i) {
      for (auto& r : allowed)
        if (r.where == where && i >= r.off && i - r.off < r.len)
          return true;
      return false;
    };
    for (int i = 0; i < NS; i++) {
      for (size_t k = 0; k < S; k++)
        if (a.reg[i][k] != b.reg[i][k] && !ok(i, k)) {
          C->violate("C10", std::string("wrote_outside_given_range@") + opn, "byte %zu of sandbox #%d changed", k, i);
          return false;
        }
      if (a.before[i] != b.before[i] || a.after[i] != b.after[i]) {
        C->violate("C10", std::string("wrote_application_memory_next_to_sandbox@") + opn, "canary page around sandbox #%d changed", i);
        return false;
      }
    }
    for (size_t k = 0; k < ARENA; k++)
      if (a.app[k] != b.app[k] && !ok(2, k)) {
        C->violate("C10", std::string("wrote_application_memory@") + opn, "byte %zu of the application arena changed", k);
        return false;
      }
    return true;
  }
  bool reads_ok(const std::vector<Range>& allowed, const char* opn, size_t slack = 0)
  {
    if (!mmu_on)
      return true;
    for (size_t i = 0; i < mmu::g.nlog; i++) {
      uint32_t off = mmu::g.log[i].off;
      bool ok = false;
      for (auto& r : allowed)
        if (r.where == 0 && off + 64 > r.off && off < r.off + r.len + slack) // an access is one instruction: up to 64 bytes wide starting at `off`
          ok = true;
      if (!ok) {
        C->violate("C10", std::string("touched_sandbox_bytes_outside_given_range@") + opn, "%s at offset %u", mmu::g.log[i].write ? "write" : "read", off);
        return false;
      }
    }
    return true;
  }

  bool in_region(int i, uintptr_t a, unsigned __int128 len)
  {
    uintptr_t b = (uintptr_t)impl[i]->mem.base;
    return a >= b && (unsigned __int128)(a - b) + len <= S;
  }
  bool outside_all(uintptr_t a, unsigned __int128 len)
  {
    for (int i = 0; i < NS; i++) {
      uintptr_t b = (uintptr_t)impl[i]->mem.base;
      unsigned __int128 end = (unsigned __int128)a + len;
      if ((unsigned __int128)a < (unsigned __int128)b + S && end > b)
        return false;
    }
    return true;
  }
  bool crosses_block(uintptr_t a, unsigned __int128 len)
  {
    // mask-flavoured backends treat "same S-aligned block" as "same sandbox" also for application memory
    if (registry || len == 0)
      return false;
    return (a & ~(uintptr_t)(S - 1)) != (uintptr_t)(((unsigned __int128)a + len - 1) & ~(unsigned __int128)(S - 1));
  }

  template<class F>
  Outcome guarded(F&& f)
  {
    if (mmu_on)
      mmu::arm(impl[0]->mem.base, S, nullptr, nullptr);
    Outcome o = attempt(f);
    if (mmu_on) {
      C->st.steps += mmu::g.count;
      mmu::disarm();
    }
    return o;
  }

  void judge(Expect e, Outcome o, const char* opn, const char* what)
  {
    if (e == MUST_PROCEED && o != OK)
      C->violate("C10", std::string("valid_request_refused@") + opn, "%s: %s (%s)", what, oname(o), g_last_abort_msg.c_str());
    else if (e == MUST_ABORT && o == OK)
      C->violate("C10", std::string("invalid_request_proceeded@") + opn, "%s", what);
  }

  template<class T>
  TP<T> ptr_at(int s, int64_t off, bool null)
  {
    if (null)
      return nullptr;
    return sb[s]->UNSAFE_accept_pointer(reinterpret_cast<T*>(impl[s]->mem.base + ((uint64_t)off & (S - 1))));
  }

  void fill_patterns()
  {
    for (int i = 0; i < NS; i++)
      for (size_t k = 0; k < S; k++)
        impl[i]->mem.gbase[k] = (uint8_t)(1 + (k * 7 + (size_t)i * 13) % 250);
    for (size_t k = 0; k < ARENA; k++)
      arena[k] = (uint8_t)(0x80 | (k % 100));
  }

  void op_memset(const Op& op)
  {
    bool null = op.a[0] == 1;
    uint64_t off = (uint64_t)op.a[1] & (S - 1);
    int form = (int)((uint64_t)op.a[3] % 5);
    uint64_t num = (uint64_t)op.a[2];
    unsigned __int128 eff = num; // value as the operation will see it
    if (form == 1)
      eff = (uint32_t)num;
    if (form == 2)
      eff = (uint64_t)(int64_t)(int)num; // signed int operand, converted to size_t by the comparison
    auto p = ptr_at<char>(0, (int64_t)off, null);
    uintptr_t a = (uintptr_t)p.UNSAFE_unverified();
    Expect e = (null || eff == 0) ? (eff == 0 && !null ? EITHER : MUST_ABORT) : in_region(0, a, eff) ? MUST_PROCEED : MUST_ABORT;
    if (form == 2 && (int)num < 0)
      e = MUST_ABORT;
    Snap before = snap();
    Outcome o = guarded([&] {
      switch (form) {
        case 0:
          rlbox::memset(*sb[0], p, 0xAB, (size_t)num);
          break;
        case 1:
          rlbox::memset(*sb[0], p, 0xAB, (unsigned)num);
          break;
        case 2:
          rlbox::memset(*sb[0], p, 0xAB, (int)num);
          break;
        case 3:
          rlbox::memset(*sb[0], p, rlbox::tainted<int, Sbx>(0xAB), rlbox::tainted<size_t, Sbx>((size_t)num));
          break;
        default:
          rlbox::memset(*sb[0], p, 0xAB, (unsigned long long)num);
          break;
      }
    });
    C->ev("memset off=%llu num=%llu form=%d -> %s", (unsigned long long)off, (unsigned long long)num, form, oname(o));
    judge(e, o, "memset", "memset range");
    Snap after = snap();
    std::vector<Range> allowed;
    if (o == OK && !null && eff > 0 && in_region(0, a, eff))
      allowed.push_back(Range{ 0, (size_t)off, (size_t)eff });
    if (!C->stop && diff_ok(before, after, allowed, "memset") && o == OK && e == MUST_PROCEED) {
      for (size_t k = 0; k < (size_t)eff; k++)
        if (after.reg[0][off + k] != 0xAB) {
          C->violate("C10", "request_not_carried_out@memset", "byte %zu of the range was not set", k);
          break;
        }
    }
    if (!C->stop)
      reads_ok(allowed, "memset");
  }

  void op_memcpy(const Op& op, bool from_sbx)
  {
    bool null = op.a[0] == 1;
    uint64_t off = (uint64_t)op.a[1] & (S - 1);
    uint64_t num = (uint64_t)op.a[2];
    auto d = ptr_at<char>(0, (int64_t)off, null);
    uintptr_t da = (uintptr_t)d.UNSAFE_unverified();
    const char* opn = from_sbx ? "memcpy_from_sandbox" : "memcpy_from_app";
    Snap before = snap();
    Outcome o;
    Expect e;
    std::vector<Range> allowed, rallowed;
    uintptr_t sa;
    int ssbx = NS == 1 ? 0 : (int)(op.a[3] & 1); // source sandbox for from_sbx
    if (from_sbx) {
      uint64_t soff = (uint64_t)op.a[4] & (S - 1);
      auto s = ptr_at<char>(ssbx, (int64_t)soff, (op.a[5] % 11) == 0);
      sa = (uintptr_t)s.UNSAFE_unverified();
      if (ssbx == 0 && sa != 0 && !null && num <= S && sa < da + num && da < sa + num)
        return; // overlapping source and destination: undefined for memcpy itself, application misuse
      bool ok = !null && sa != 0 && num >= 1 && num <= S && in_region(0, da, num) && in_region(ssbx, sa, num);
      e = (num == 0 && !null && sa != 0) ? EITHER : ok ? MUST_PROCEED : MUST_ABORT;
      if (ssbx != 0)
        C->probe("source_in_other_live_sandbox");
      o = guarded([&] {
        if ((op.a[3] >> 1) % 3 == 1)
          rlbox::memcpy(*sb[0], d, s, rlbox::tainted<size_t, Sbx>((size_t)num)); // the count is a tainted value itself
        else if ((op.a[3] >> 1) % 3 == 2 && num <= 0x7fffffff)
          rlbox::memcpy(*sb[0], d, s, (int)num);
        else
          rlbox::memcpy(*sb[0], d, s, (size_t)num);
      });
      if (ok && ssbx == 0)
        rallowed.push_back(Range{ 0, (size_t)soff, (size_t)num });
    } else {
      // application source: inside the arena, or straddling from application memory into the region
      const uint8_t* src;
      if (op.a[4] < 0) {
        src = impl[0]->mem.base + op.a[4]; // canary page just before the region
        C->probe("application_source_adjacent_to_sandbox");
      } else
        src = appbuf + ((uint64_t)op.a[4] % 512);
      sa = (uintptr_t)src;
      bool src_ok = outside_all(sa, num) && num <= APPMAX + 4096;
      bool ok = !null && num >= 1 && num <= S && in_region(0, da, num) && src_ok;
      e = (num == 0 && !null) ? EITHER : ok ? (crosses_block(sa, num) ? EITHER : MUST_PROCEED) : MUST_ABORT;
      o = guarded([&] {
        if ((op.a[3] >> 1) % 3 == 1)
          rlbox::memcpy(*sb[0], d, src, rlbox::tainted<size_t, Sbx>((size_t)num));
        else
          rlbox::memcpy(*sb[0], d, src, (size_t)num);
      });
    }
    C->ev("%s doff=%llu num=%llu -> %s", opn, (unsigned long long)off, (unsigned long long)num, oname(o));
    judge(e, o, opn, "memcpy ranges");
    Snap after = snap();
    if (o == OK && !null && num > 0 && in_region(0, da, num))
      allowed.push_back(Range{ 0, (size_t)off, (size_t)num });
    if (!C->stop && diff_ok(before, after, allowed, opn) && o == OK && e == MUST_PROCEED) {
      // content: destination equals the source as it was before
      const uint8_t* srcbytes = nullptr;
      if (from_sbx)
        srcbytes = &before.reg[ssbx][sa - (uintptr_t)impl[ssbx]->mem.base];
      else if (sa >= (uintptr_t)arena && sa < (uintptr_t)arena + ARENA)
        srcbytes = &before.app[sa - (uintptr_t)arena];
      bool overlap = from_sbx && ssbx == 0 && sa < da + num && da < sa + num;
      if (srcbytes && !overlap && memcmp(srcbytes, &after.reg[0][off], (size_t)num) != 0)
        C->violate("C10", std::string("request_not_carried_out@") + opn, "destination does not equal the source");
    }
    if (!C->stop) {
      std::vector<Range> both = allowed;
      both.insert(both.end(), rallowed.begin(), rallowed.end());
      reads_ok(both, opn);
    }
  }

  void op_memcmp(const Op& op)
  {
    bool null = op.a[0] == 1;
    uint64_t off = (uint64_t)op.a[1] & (S - 1), soff = (uint64_t)op.a[4] & (S - 1);
    uint64_t num = (uint64_t)op.a[2];
    auto d = ptr_at<char>(0, (int64_t)off, null);
    auto s = ptr_at<char>(0, (int64_t)soff, false);
    uintptr_t da = (uintptr_t)d.UNSAFE_unverified(), sa = (uintptr_t)s.UNSAFE_unverified();
    bool app_operand = (op.a[3] & 6) == 6; // the second operand is an application buffer (possibly the bytes just before the region)
    const uint8_t* asrc = op.a[4] < 0 ? impl[0]->mem.base + op.a[4] : appbuf + ((uint64_t)op.a[4] % 512);
    if (app_operand)
      sa = (uintptr_t)asrc;
    bool ok = !null && num >= 1 && num <= S && in_region(0, da, num) && (app_operand ? (outside_all(sa, num) && num <= APPMAX + 4096) : in_region(0, sa, num));
    Expect e = (num == 0 && !null) ? EITHER : ok ? (app_operand && crosses_block(sa, num) ? EITHER : MUST_PROCEED) : MUST_ABORT;
    Snap before = snap();
    int got = 0;
    Outcome o = guarded([&] {
      if (app_operand) {
        C->probe("memcmp_against_application_buffer");
        got = rlbox::memcmp(*sb[0], d, (const char*)asrc, (size_t)num).UNSAFE_unverified();
      } else if (op.a[3] & 1)
        got = rlbox::memcmp(*sb[0], d, s, rlbox::tainted<size_t, Sbx>((size_t)num)).UNSAFE_unverified();
      else
        got = rlbox::memcmp(*sb[0], d, s, (size_t)num).UNSAFE_unverified();
    });
    C->ev("memcmp -> %s", oname(o));
    judge(e, o, "memcmp", "memcmp ranges");
    Snap after = snap();
    if (app_operand) {
      if (!C->stop && diff_ok(before, after, {}, "memcmp") && o == OK && ok && sa >= (uintptr_t)arena && sa + num <= (uintptr_t)arena + ARENA) {
        int want = memcmp(&before.reg[0][off], &before.app[sa - (uintptr_t)arena], (size_t)num);
        if ((want < 0) != (got < 0) || (want > 0) != (got > 0))
          C->violate("C10", "request_not_carried_out@memcmp", "sign of the comparison differs from the reference");
      }
      if (!C->stop && ok)
        reads_ok({ Range{ 0, (size_t)off, (size_t)num } }, "memcmp");
      return;
    }
    if (!C->stop && diff_ok(before, after, {}, "memcmp") && o == OK && ok) {
      int want = memcmp(&before.reg[0][off], &before.reg[0][soff], (size_t)num);
      if ((want < 0) != (got < 0) || (want > 0) != (got > 0))
        C->violate("C10", "request_not_carried_out@memcmp", "sign of the comparison differs from the reference");
    }
    if (!C->stop && ok)
      reads_ok({ Range{ 0, (size_t)off, (size_t)num }, Range{ 0, (size_t)soff, (size_t)num } }, "memcmp");
  }

  template<class T>
  void op_range_t(const Op& op)
  {
    bool null = op.a[0] == 1;
    uint64_t off = ((uint64_t)op.a[1] & (S - 1)) & ~(uint64_t)(sizeof(T) - 1);
    uint64_t count = (uint64_t)op.a[2];
    auto p = ptr_at<T>(0, (int64_t)off, null);
    uintptr_t a = (uintptr_t)p.UNSAFE_unverified();
    unsigned __int128 bytes = (unsigned __int128)count * sizeof(T);
    bool ok = !null && count >= 1 && in_region(0, a, bytes);
    // a null start is handed to the verifier as null (documented behaviour): nothing is touched
    Expect e = count == 0 ? MUST_ABORT : null ? EITHER : ok ? MUST_PROCEED : MUST_ABORT;
    Snap before = snap();
    std::unique_ptr<T[]> got;
    bool verifier_ran = false;
    Outcome o = guarded([&] {
      got = p.copy_and_verify_range(
        [&](std::unique_ptr<T[]> v) {
          verifier_ran = true;
          return v;
        },
        (size_t)count);
    });
    C->ev("range<%zu> off=%llu count=%llu -> %s", sizeof(T), (unsigned long long)off, (unsigned long long)count, oname(o));
    if (o == ALLOCFAIL && !ok) {
      // failing the allocation is an accepted way of not proceeding, but only after the range check refused nothing it should have
      C->probe("range_request_failed_allocation");
      if (bytes > ((unsigned __int128)1 << 63))
        C->violate("C10", "wrapped_extent_passed_range_check@range", "count %llu x %zu bytes wraps the address space but reached the allocation", (unsigned long long)count, sizeof(T));
    } else
      judge(e, o, "range", "copy_and_verify_range");
    Snap after = snap();
    if (!C->stop && diff_ok(before, after, {}, "range") && o == OK && ok && got) {
      if (memcmp(got.get(), &before.reg[0][off], (size_t)bytes) != 0)
        C->violate("C10", "request_not_carried_out@range", "delivered elements differ from the source range");
    }
    if (!C->stop && o == OK && null && got)
      C->violate("C10", "null_start_produced_data@range", "null start yet a buffer was delivered");
    if (!C->stop && ok)
      reads_ok({ Range{ 0, (size_t)off, (size_t)bytes } }, "range");
  }
  // `long` is 8 bytes for the application and 4 for the guest: RLBox checks count*8 bytes and reads an 8-byte
  // object at every 4-byte step.  What "the range given" means is ambiguous, so only memory safety and the
  // provenance of what was delivered are judged.
  void op_range_long(const Op& op)
  {
    bool null = op.a[0] == 1;
    uint64_t off = ((uint64_t)op.a[1] & (S - 1)) & ~(uint64_t)7;
    uint64_t count = (uint64_t)op.a[2];
    auto p = ptr_at<long>(0, (int64_t)off, null);
    uintptr_t a = (uintptr_t)p.UNSAFE_unverified();
    bool fits_host = !null && count >= 1 && in_region(0, a, (unsigned __int128)count * 8);
    bool fits_guest = !null && count >= 1 && in_region(0, a, (unsigned __int128)count * 4);
    Expect e = count == 0 ? MUST_ABORT : null ? EITHER : fits_host ? MUST_PROCEED : fits_guest ? EITHER : MUST_ABORT;
    Snap before = snap();
    std::unique_ptr<long[]> got;
    Outcome o = guarded([&] { got = p.copy_and_verify_range([&](std::unique_ptr<long[]> v) { return v; }, (size_t)count); });
    C->ev("range<long> off=%llu count=%llu -> %s", (unsigned long long)off, (unsigned long long)count, oname(o));
    C->probe("range_over_type_with_different_guest_width");
    if (o == ALLOCFAIL && !fits_host)
      return;
    judge(e, o, "range_long", "copy_and_verify_range over long");
    Snap after = snap();
    if (!C->stop && diff_ok(before, after, {}, "range_long") && o == OK && got && !null) {
      for (uint64_t i = 0; i < count && !C->stop; i++) {
        if (off + 4 * i + 8 > S) {
          C->violate("C10", "read_beyond_sandbox@range_long", "element %llu of %llu was read from bytes past the end of sandbox memory (value %lx)", (unsigned long long)i, (unsigned long long)count, got[i]);
          break;
        }
        long want;
        memcpy(&want, &before.reg[0][off + 4 * i], 8);
        if (got[i] != want)
          C->violate("C10", "request_not_carried_out@range_long", "element %llu does not equal the bytes at its guest-stride position", (unsigned long long)i);
      }
    }
    if (!C->stop && fits_host)
      reads_ok({ Range{ 0, (size_t)off, (size_t)count * 8 } }, "range_long");
  }
  // Build `wide`: the guest's int has 8 bytes, the application's 4.  Element i lives at start + 8*i; a range whose
  // application-side extent (count*4) still fits while its guest-side extent does not must not proceed - what lies behind
  // the region is application memory.
  void op_range_wide_int(const Op& op)
  {
    using GI = Sbx::T_IntType;
    bool null = op.a[0] == 1;
    uint64_t off = ((uint64_t)op.a[1] & (S - 1)) & ~(uint64_t)(sizeof(GI) - 1);
    uint64_t count = (uint64_t)op.a[2];
    auto p = ptr_at<int>(0, (int64_t)off, null);
    uintptr_t a = (uintptr_t)p.UNSAFE_unverified();
    bool fits_guest = !null && count >= 1 && in_region(0, a, (unsigned __int128)count * sizeof(GI));
    bool fits_host = !null && count >= 1 && in_region(0, a, (unsigned __int128)count * sizeof(int));
    // representable values in every cell up to the end of the region, and in the application bytes right behind it
    for (uint64_t k = off; k + sizeof(GI) <= S; k += sizeof(GI)) {
      GI v = (GI)(int)(0x1000 + k);
      memcpy(impl[0]->mem.gbase + k, &v, sizeof v);
    }
    for (uint64_t k = 0; k + sizeof(GI) <= 2048; k += sizeof(GI)) {
      GI v = (GI)0x5EC7;
      memcpy(impl[0]->mem.base + S + k, &v, sizeof v);
    }
    Expect e = count == 0 ? MUST_ABORT : null ? EITHER : fits_guest ? MUST_PROCEED : MUST_ABORT;
    Snap before = snap();
    std::unique_ptr<int[]> got;
    Outcome o = guarded([&] { got = p.copy_and_verify_range([&](std::unique_ptr<int[]> v) { return v; }, (size_t)count); });
    C->ev("range<int, guest width %zu> off=%llu count=%llu -> %s", sizeof(GI), (unsigned long long)off, (unsigned long long)count, oname(o));
    C->probe("range_over_type_wider_in_the_guest");
    if (fits_host && !fits_guest)
      C->probe("range_fits_in_application_width_only");
    if (o == ALLOCFAIL && !fits_guest)
      return;
    judge(e, o, "range_wide", "copy_and_verify_range over an int that has 8 bytes in the guest");
    Snap after = snap();
    if (!C->stop && diff_ok(before, after, {}, "range_wide") && o == OK && fits_guest && got) {
      for (uint64_t i = 0; i < count && !C->stop; i++)
        if (got[i] != (int)(0x1000 + off + sizeof(GI) * i))
          C->violate("C10", "request_not_carried_out@range_wide", "element %llu is %d, its guest cell holds %d", (unsigned long long)i, got[i], (int)(0x1000 + off + sizeof(GI) * i));
    }
    if (!C->stop && fits_guest)
      reads_ok({ Range{ 0, (size_t)off, (size_t)(count * sizeof(GI)) } }, "range_wide");
  }
  void op_range(const Op& op)
  {
    if constexpr (sizeof(Sbx::T_IntType) > sizeof(int)) {
      if ((uint64_t)op.a[3] % 5 == 2) {
        op_range_wide_int(op);
        return;
      }
    }
    if ((uint64_t)op.a[3] % 6 == 5) {
      op_range_long(op);
      return;
    }
    switch ((int)((uint64_t)op.a[3] % 5)) {
      case 0:
        op_range_t<char>(op);
        break;
      case 1:
        op_range_t<short>(op);
        break;
      case 2:
        op_range_t<int>(op);
        break;
      case 3:
        op_range_t<long long>(op);
        break;
      default:
        op_range_t<double>(op);
        break;
    }
  }

  void op_string(const Op& op)
  {
    bool null = op.a[0] == 1;
    uint64_t off = (uint64_t)op.a[1] & (S - 1);
    // place a terminator `len` bytes after start (or none up to the end of the region)
    uint64_t room = S - off;
    uint64_t len = (uint64_t)op.a[2] % (room + 8);
    bool terminated = len < room;
    uint8_t* g = impl[0]->mem.gbase;
    for (uint64_t k = off; k < S; k++)
      if (g[k] == 0)
        g[k] = 1;
    if (terminated)
      g[off + len] = 0;
    impl[0]->mem.base[S + 4095] = 0; // runaway strlen stops inside mapped application memory
    if (!terminated)
      C->probe("unterminated_string_at_end_of_region");
    auto p = ptr_at<char>(0, (int64_t)off, null);
    Snap before = snap();
    bool use_std = (op.a[3] & 1) != 0;
    std::unique_ptr<char[]> gu;
    std::string gs;
    Outcome o = guarded([&] {
      if (use_std)
        gs = p.copy_and_verify_string([](std::string s) { return s; });
      else
        gu = p.copy_and_verify_string([](std::unique_ptr<char[]> s) { return s; });
    });
    C->ev("string off=%llu len=%llu term=%d std=%d -> %s", (unsigned long long)off, (unsigned long long)len, (int)terminated, (int)use_std, oname(o));
    Expect e = null ? EITHER : terminated ? MUST_PROCEED : MUST_ABORT;
    judge(e, o, "string", "copy_and_verify_string");
    Snap after = snap();
    if (!C->stop && diff_ok(before, after, {}, "string") && o == OK && terminated && !null) {
      const char* got = use_std ? gs.c_str() : gu.get();
      size_t n = got ? strlen(got) : 0;
      if (!got || n != len || memcmp(got, &before.reg[0][off], (size_t)len) != 0)
        C->violate("C10", "request_not_carried_out@string", "delivered string differs from the source (len %zu vs %llu)", n, (unsigned long long)len);
    }
    if (!C->stop && terminated && !null)
      reads_ok({ Range{ 0, (size_t)off, (size_t)len + 1 } }, "string", 512); // libc strlen scans whole aligned vector blocks
  }

  template<class T>
  void op_bufaddr_t(const Op& op, bool unverified)
  {
    bool null = op.a[0] == 1;
    uint64_t off = ((uint64_t)op.a[1] & (S - 1)) & ~(uint64_t)(sizeof(T) - 1);
    uint64_t count = (uint64_t)op.a[2];
    auto p = ptr_at<T>(0, (int64_t)off, null);
    uintptr_t a = (uintptr_t)p.UNSAFE_unverified();
    unsigned __int128 bytes = (unsigned __int128)count * sizeof(T);
    bool ok = !null && count >= 1 && in_region(0, a, bytes);
    const char* opn = unverified ? "unverified_safe_pointer" : "buffer_address";
    Snap before = snap();
    uintptr_t got = 0;
    Outcome o = guarded([&] {
      if (unverified)
        got = (uintptr_t)p.unverified_safe_pointer_because((size_t)count, "simulation");
      else
        got = p.copy_and_verify_buffer_address([](uintptr_t v) { return v; }, (size_t)count);
    });
    C->ev("%s<%zu> off=%llu count=%llu -> %s", opn, sizeof(T), (unsigned long long)off, (unsigned long long)count, oname(o));
    // "a raw pointer handed back together with an element count really has that many whole elements inside the sandbox"
    if (count == 0) {
      // zero elements: the statement requires nothing either way
    } else if (o == OK && got != 0 && !ok)
      C->violate("C10",
                 std::string(bytes > ((unsigned __int128)1 << 63) ? "wrapped_extent_accepted@" : "raw_pointer_without_room_for_its_elements@") + opn,
                 "pointer at offset %llu handed back for %llu elements of %zu bytes; the sandbox ends %llu bytes after it",
                 (unsigned long long)off,
                 (unsigned long long)count,
                 sizeof(T),
                 (unsigned long long)(S - off));
    else if (o != OK && ok)
      C->violate("C10", std::string("valid_request_refused@") + opn, "%llu elements of %zu bytes at offset %llu fit: %s", (unsigned long long)count, sizeof(T), (unsigned long long)off, g_last_abort_msg.c_str());
    else if (o == OK && ok && got != a)
      C->violate("C10", std::string("request_not_carried_out@") + opn, "address differs");
    Snap after = snap();
    if (!C->stop)
      diff_ok(before, after, {}, opn);
  }
  void op_bufaddr(const Op& op, bool unverified)
  {
    switch ((int)((uint64_t)op.a[3] % 4)) {
      case 0:
        op_bufaddr_t<char>(op, unverified);
        break;
      case 1:
        op_bufaddr_t<short>(op, unverified);
        break;
      case 2:
        op_bufaddr_t<int>(op, unverified);
        break;
      default:
        op_bufaddr_t<double>(op, unverified);
        break;
    }
  }

  // grant of a buffer of multi-byte elements: the copy path allocates in the sandbox, and the allocator is not trusted
  // (F3 null, F4 a block whose last element starts inside the region and ends behind it)
  template<class T>
  void op_grant_typed(const Op& op)
  {
    uint64_t num = 1 + (uint64_t)op.a[2] % 16;
    int fault = (int)((uint64_t)op.a[5] % 4);
    g_fault.grant_refuse = 1; // always the copy path
    g_fault.refuse_echoes_pointer = (((uint64_t)op.a[5] >> 2) & 1) != 0;
    if (fault == 2)
      g_fault.malloc_fail = 1;
    if (fault == 3)
      g_fault.malloc_straddle = 1;
    T* src = reinterpret_cast<T*>(appbuf + 8 * ((uint64_t)op.a[4] % 16));
    for (uint64_t i = 0; i < num; i++)
      src[i] = (T)(i * 3 + 1);
    Snap before = snap();
    bool copied = false;
    TP<T> got = nullptr;
    Outcome o = guarded([&] { got = rlbox::copy_memory_or_grant_access(*sb[0], src, (size_t)num, false, copied); });
    g_fault.clear();
    C->ev("grant<%zu> num=%llu fault=%d -> %s copied=%d", sizeof(T), (unsigned long long)num, fault, oname(o), (int)copied);
    C->probe("grant_of_multi_byte_elements");
    Snap after = snap();
    uintptr_t ga = (uintptr_t)got.UNSAFE_unverified();
    if (o == OK && ga != 0) {
      if (!in_region(0, ga, (unsigned __int128)num * sizeof(T))) {
        C->violate("C10", "result_range_leaves_sandbox@grant_access", "%llu elements of %zu bytes at offset %lld", (unsigned long long)num, sizeof(T), (long long)(ga - (uintptr_t)impl[0]->mem.base));
        return;
      }
      size_t roff = ga - (uintptr_t)impl[0]->mem.base;
      if (diff_ok(before, after, { Range{ 0, roff, (size_t)num * sizeof(T) } }, "grant_access") && memcmp(&after.reg[0][roff], src, (size_t)num * sizeof(T)) != 0)
        C->violate("C10", "request_not_carried_out@grant_access", "sandbox copy differs from the application buffer");
    } else if (!C->stop) {
      // refused / failed / straddling allocation: nothing may have been written anywhere
      diff_ok(before, after, {}, "grant_access");
    }
  }
  void op_grant(const Op& op)
  {
    if ((op.a[3] & 6) == 6) {
      if (op.a[3] & 8)
        op_grant_typed<double>(op);
      else
        op_grant_typed<short>(op);
      return;
    }
    uint64_t num = (uint64_t)op.a[2];
    if (num > APPMAX)
      num = (op.a[2] & 1) ? APPMAX : (uint64_t)op.a[2]; // keep some huge values
    int fault = (int)((uint64_t)op.a[5] % 4); // 0 none, 1 grant refused, 2 refused + allocator null, 3 refused + straddling block
    if (fault >= 1) {
      g_fault.grant_refuse = 1;
      g_fault.refuse_echoes_pointer = (((uint64_t)op.a[5] >> 2) & 1) != 0; // refused, and the caller's pointer comes back with success=false
    }
    if (fault == 2)
      g_fault.malloc_fail = 1;
    if (fault == 3)
      g_fault.malloc_straddle = 1;
    char* src = (char*)appbuf + ((uint64_t)op.a[4] % 256);
    bool src_ok = num <= APPMAX - 256;
    // optionally hand over a heap buffer that RLBox is to free once it has been copied
    bool free_src = (op.a[3] & 1) && num >= 1 && num <= 1024;
    char* hsrc = nullptr;
    g_watch_free = nullptr;
    g_watch_freed = 0;
    if (free_src) {
      hsrc = (char*)aligned_alloc(4096, 4096); // page aligned: never straddles a region-sized block, whatever the heap looks like
      for (uint64_t i = 0; i < num; i++)
        hsrc[i] = (char)(0x30 + i % 40);
      memcpy(src, hsrc, (size_t)num); // `src` keeps a reference copy of the content
      g_watch_free = hsrc;
      g_watch_freed = 0;
    }
    // the buffer may lie in the memory of the OTHER live sandbox: for this sandbox that is a foreign buffer like any other -
    // what comes back must lie in this sandbox's own memory
    if (NS == 2 && !free_src && (((uint64_t)op.a[5] >> 3) & 1) && num >= 1 && num <= S / 2) {
      src = (char*)impl[1]->mem.base + ((uint64_t)op.a[4] % (S - num));
      src_ok = true;
      C->probe("grant_of_buffer_in_other_live_sandbox");
    }
    Snap before = snap();
    bool copied = false;
    TP<char> got = nullptr;
    Outcome o = guarded([&] { got = rlbox::copy_memory_or_grant_access(*sb[0], free_src ? hsrc : src, (size_t)num, free_src, copied); });
    g_fault.clear();
    C->ev("grant num=%llu fault=%d free_src=%d -> %s copied=%d freed=%d", (unsigned long long)num, fault, (int)free_src, oname(o), (int)copied, g_watch_freed);
    if (free_src) {
      g_watch_free = nullptr;
      C->probe("grant_with_source_to_be_freed");
      bool should_free = o == OK && copied;
      if (g_watch_freed != (should_free ? 1 : 0))
        C->violate("C10",
                   std::string(g_watch_freed ? "source_freed_without_successful_copy@" : "copied_source_not_freed@") + "grant_access",
                   "free_source_on_copy: outcome %s copied=%d, the source buffer was freed %d times",
                   oname(o),
                   (int)copied,
                   g_watch_freed);
      if (g_watch_freed == 0)
        __real_free(hsrc);
    }
    Snap after = snap();
    uintptr_t ga = (uintptr_t)got.UNSAFE_unverified();
    if (o == OK && ga != 0) {
      if (!in_region(0, ga, num) || num == 0) {
        C->violate("C10", "result_range_leaves_sandbox@grant_access", "%llu bytes at offset %lld", (unsigned long long)num, (long long)(ga - (uintptr_t)impl[0]->mem.base));
        return;
      }
      size_t roff = ga - (uintptr_t)impl[0]->mem.base;
      if (diff_ok(before, after, { Range{ 0, roff, (size_t)num } }, "grant_access") && memcmp(&after.reg[0][roff], src, (size_t)num) != 0)
        C->violate("C10", "request_not_carried_out@grant_access", "sandbox copy differs from the application buffer");
    } else {
      // refused / failed allocation: nothing may have been written
      if (!C->stop && !diff_ok(before, after, {}, "grant_access"))
        return;
      if (o == OK && fault == 2)
        C->probe("grant_copy_allocation_failed_returns_null");
      if (o != OK && fault <= 1 && num >= 1 && num <= 1024 && src_ok && !crosses_block((uintptr_t)src, num) && impl[0]->used.size() < 2)
        C->violate("C10", "valid_request_refused@grant_access", "%llu bytes: %s", (unsigned long long)num, g_last_abort_msg.c_str());
    }
  }

  template<class T>
  void op_deny_t(const Op& op)
  {
    bool null = op.a[0] == 1;
    uint64_t off = ((uint64_t)op.a[1] & (S - 1)) & ~(uint64_t)(sizeof(T) - 1);
    uint64_t num = (uint64_t)op.a[2];
    auto p = ptr_at<T>(0, (int64_t)off, null);
    uintptr_t a = (uintptr_t)p.UNSAFE_unverified();
    unsigned __int128 bytes = (unsigned __int128)num * sizeof(T);
    bool ok = !null && num >= 1 && in_region(0, a, bytes);
    int mode = (int)((uint64_t)op.a[5] % 4); // 0 backend may hand the buffer over in place, 1/3 refused -> copy, 2 refused + host malloc fails
    if (mode != 0) {
      g_fault.grant_refuse = 1;
      g_fault.refuse_echoes_pointer = (((uint64_t)op.a[5] >> 2) & 1) != 0;
    }
    if (mode == 2)
      g_host_malloc_fail = 1;
    Snap before = snap();
    bool copied = false;
    T* got = nullptr;
    bool free_src = ((op.a[3] / 3) & 1) != 0;
    uint64_t frees_before = impl[0]->n_frees;
    Outcome o = guarded([&] { got = rlbox::copy_memory_or_deny_access(*sb[0], p, (size_t)num, free_src, copied); });
    g_fault.clear();
    g_host_malloc_fail = 0;
    bool in_place = got != nullptr && (uintptr_t)got == a;
    if (free_src) {
      C->probe("deny_with_source_to_be_freed");
      uint64_t frees = impl[0]->n_frees - frees_before;
      bool should_free = o == OK && copied && got != nullptr;
      if (frees != (should_free ? 1u : 0u) || (should_free && impl[0]->last_free_rep != (uint32_t)off))
        C->violate("C10",
                   std::string(frees && !should_free ? "source_freed_without_successful_copy@" : "copied_source_not_freed@") + "deny_access",
                   "free_source_on_copy: outcome %s copied=%d result=%s, sandbox free called %llu times",
                   oname(o),
                   (int)copied,
                   got ? "non-null" : "null",
                   (unsigned long long)frees);
    }
    C->ev("deny<%zu> off=%llu num=%llu mode=%d -> %s in_place=%d", sizeof(T), (unsigned long long)off, (unsigned long long)num, mode, oname(o), (int)in_place);
    if (in_place)
      C->probe("deny_access_handed_over_in_place");
    Snap after = snap();
    if (num == 0) {
      // zero elements: nothing is required either way
    } else if (o == OK && got && !ok)
      C->violate("C10",
                 std::string(in_place ? "raw_pointer_without_room_for_its_elements@" : "invalid_request_proceeded@") + "deny_access",
                 "%llu elements of %zu bytes from offset %llu; the sandbox ends %llu bytes after it",
                 (unsigned long long)num,
                 sizeof(T),
                 (unsigned long long)off,
                 (unsigned long long)(S - off));
    else if (o == OK && got && !in_place && memcmp(got, &before.reg[0][off], (size_t)bytes) != 0)
      C->violate("C10", "request_not_carried_out@deny_access", "copy differs from the sandbox range");
    else if (o != OK && ok && mode != 2 && num <= 65536)
      C->violate("C10", "valid_request_refused@deny_access", "%s", g_last_abort_msg.c_str());
    if (!C->stop)
      diff_ok(before, after, {}, "deny_access");
    if (!C->stop && ok)
      reads_ok({ Range{ 0, (size_t)off, (size_t)bytes } }, "deny_access");
    if (got && !in_place)
      free(got);
  }
  void op_deny(const Op& op)
  {
    switch ((int)((uint64_t)op.a[3] % 3)) {
      case 0:
        op_deny_t<char>(op);
        break;
      case 1:
        op_deny_t<short>(op);
        break;
      default:
        op_deny_t<double>(op);
        break;
    }
  }

  // memcmp whose first operand is a pointer that lives in sandbox memory; the guest retargets that cell
  // at RLBox's k-th access to the region (trap-MMU runs only)
  struct CellFault
  {
    uint8_t* gcell;
    uint64_t k;
    uint32_t value;
    bool fired;
  };
  static void cell_hook(uint64_t k, uint32_t, bool, void* ud)
  {
    auto* f = (CellFault*)ud;
    if (!f->fired && k == f->k) {
      memcpy(f->gcell, &f->value, 4);
      f->fired = true;
    }
  }
  void op_memcmp_cell(const Op& op)
  {
    if (!mmu_on)
      return;
    if (op.a[0] == 0 && ((uint64_t)op.a[5] >> 2) % 3 == 0)
      return op_memcmp_count_cell(op);
    const uint32_t celloff = 64;
    uint64_t off = (uint64_t)op.a[1] & (S - 1), soff = (uint64_t)op.a[4] & (S - 1);
    if (off < 128)
      off = 128;
    uint64_t num = (uint64_t)op.a[2];
    if (num > 64)
      num = 1 + num % 64;
    if (num == 0)
      num = 1;
    uint32_t rep = (uint32_t)off;
    memcpy(impl[0]->mem.gbase + celloff, &rep, 4);
    auto cell = sb[0]->UNSAFE_accept_pointer(reinterpret_cast<char**>(impl[0]->mem.base + celloff));
    auto s = ptr_at<char>(0, (int64_t)soff, false);
    CellFault cf;
    cf.gcell = impl[0]->mem.gbase + celloff;
    cf.k = (uint64_t)((uint64_t)op.a[5] % 5);
    cf.value = (uint32_t)(S - 1 - (uint64_t)op.a[3] % 4); // a few bytes before the end of the region
    cf.fired = false;
    Snap before = snap();
    int got = 0;
    mmu::arm(impl[0]->mem.base, S, cf.k ? cell_hook : nullptr, &cf);
    Outcome o = attempt([&] { got = rlbox::memcmp(*sb[0], *cell, s, (size_t)num).UNSAFE_unverified(); });
    C->st.steps += mmu::g.count;
    mmu::disarm();
    C->ev("memcmp_through_pointer_cell off=%llu soff=%llu num=%llu strike@%llu fired=%d -> %s", (unsigned long long)off, (unsigned long long)soff, (unsigned long long)num, (unsigned long long)cf.k, (int)cf.fired, oname(o));
    if (cf.fired)
      C->fired("F2_pointer_cell_retargeted_during_memcmp");
    Snap after = snap();
    std::vector<Range> allowed = { Range{ 0, celloff, 4 } };
    if (off + num <= S)
      allowed.push_back(Range{ 0, (size_t)off, (size_t)num });
    if (soff + num <= S)
      allowed.push_back(Range{ 0, (size_t)soff, (size_t)num });
    if (cf.fired && (uint64_t)cf.value + num <= S)
      allowed.push_back(Range{ 0, (size_t)cf.value, (size_t)num });
    if (!diff_ok(before, after, { Range{ 0, celloff, 4 } }, "memcmp_through_pointer_cell"))
      return;
    if (!cf.fired && off + num <= S && soff + num <= S && o != OK)
      C->violate("C10", "valid_request_refused@memcmp_through_pointer_cell", "%s", g_last_abort_msg.c_str());
    if (!C->stop)
      reads_ok(allowed, "memcmp_through_pointer_cell");
    (void)got;
  }

  // memcmp whose COUNT lives in sandbox memory (a tainted_volatile reference); the guest rewrites it at the k-th access.
  // Whatever count the comparison uses must be one that the range checks saw.
  void op_memcmp_count_cell(const Op& op)
  {
    const uint32_t celloff = 72;
    using GSZ = std::make_unsigned_t<Sbx::T_LongType>; // the guest's size_t
    uint64_t off = 128 + (uint64_t)op.a[1] % 512, soff = S / 2 + (uint64_t)op.a[4] % 512;
    uint64_t num1 = 1 + (uint64_t)op.a[2] % 48;
    static const uint64_t kSecond[] = { 0, 7, 200, 400, S - 8, S, S + 1, 0xFFFFFFFFull };
    uint64_t num2 = kSecond[(uint64_t)op.a[3] % 8];
    // equal bytes in both operands as far as the region goes, so that the comparison runs its whole count
    for (uint64_t i = 0; off + i < S / 2 && soff + i < S; i++)
      impl[0]->mem.gbase[off + i] = impl[0]->mem.gbase[soff + i] = (uint8_t)(0x30 + i % 41);
    GSZ rep = (GSZ)num1;
    memcpy(impl[0]->mem.gbase + celloff, &rep, sizeof rep);
    auto cell = sb[0]->UNSAFE_accept_pointer(reinterpret_cast<size_t*>(impl[0]->mem.base + celloff));
    auto d = ptr_at<char>(0, (int64_t)off, false);
    auto s = ptr_at<char>(0, (int64_t)soff, false);
    CellFault cf;
    cf.gcell = impl[0]->mem.gbase + celloff;
    cf.k = (uint64_t)((uint64_t)op.a[5] % 5);
    cf.value = (uint32_t)num2;
    cf.fired = false;
    Snap before = snap();
    int got = 0;
    mmu::arm(impl[0]->mem.base, S, cf.k ? cell_hook : nullptr, &cf);
    Outcome o = attempt([&] { got = rlbox::memcmp(*sb[0], d, s, *cell).UNSAFE_unverified(); });
    C->st.steps += mmu::g.count;
    mmu::disarm();
    C->ev("memcmp_with_count_cell off=%llu soff=%llu count=%llu then %llu strike@%llu fired=%d -> %s", (unsigned long long)off, (unsigned long long)soff, (unsigned long long)num1, (unsigned long long)num2, (unsigned long long)cf.k,
          (int)cf.fired, oname(o));
    C->probe("memcmp_count_read_from_sandbox_memory");
    if (cf.fired)
      C->fired("F2_count_cell_rewritten_during_memcmp");
    Snap after = snap();
    std::vector<Range> allowed = { Range{ 0, celloff, sizeof(GSZ) } };
    auto fits = [&](uint64_t n) { return off + n <= S && soff + n <= S; };
    allowed.push_back(Range{ 0, (size_t)off, (size_t)num1 });
    allowed.push_back(Range{ 0, (size_t)soff, (size_t)num1 });
    if (cf.fired && fits(num2)) {
      allowed.push_back(Range{ 0, (size_t)off, (size_t)num2 });
      allowed.push_back(Range{ 0, (size_t)soff, (size_t)num2 });
    }
    if (!diff_ok(before, after, { Range{ 0, celloff, sizeof(GSZ) } }, "memcmp_through_pointer_cell"))
      return;
    if (!cf.fired && o != OK)
      C->violate("C10", "valid_request_refused@memcmp_through_pointer_cell", "count in a sandbox cell: %s", g_last_abort_msg.c_str());
    else if (!cf.fired && got != 0)
      C->violate("C10", "request_not_carried_out@memcmp_through_pointer_cell", "equal ranges of %llu bytes compare as %d", (unsigned long long)num1, got);
    if (!C->stop)
      reads_ok(allowed, "memcmp_through_pointer_cell");
  }

  void run(const Plan& p, Ctx& c) override
  {
    C = &c;
    run_begin(&c);
    Sbx::cfg = Sbx::Config();
    registry = p.cfg.size() > 1 && p.cfg[1];
    mmu_on = p.cfg.size() > 2 && p.cfg[2];
    int logsz = p.cfg.empty() ? 12 : (int)p.cfg[0];
    if (mmu_on || logsz > 12 || logsz < 8)
      logsz = 12;
    Sbx::cfg.size = (size_t)1 << logsz;
    Sbx::cfg.subpage_slot = p.cfg.size() > 4 ? (int)(p.cfg[4] & 15) : 0;
    if (logsz < 12)
      c.probe("region_smaller_than_a_page");
    Sbx::cfg.registry = registry;
    Sbx::cfg.mmu = mmu_on;
    Sbx::cfg.deny_in_place = p.cfg.size() > 3 && p.cfg[3];
    S = Sbx::cfg.size;
    NS = p.cfg.size() > 5 && p.cfg[5] ? 1 : 2;
    if (NS == 1)
      c.probe("exactly_one_live_sandbox");
    arena = (uint8_t*)mmap(nullptr, ARENA, PROT_READ | PROT_WRITE, MAP_PRIVATE | MAP_ANONYMOUS, -1, 0);
    appbuf = arena + 4096 + 64;
    for (int i = 0; i < NS; i++) {
      sb[i] = std::make_unique<Sandbox>();
      sb[i]->create_sandbox(0);
      impl[i] = sb[i]->get_sandbox_impl();
    }
    c.ev("cfg size=2^%d slot=%d registry=%d mmu=%d", logsz, Sbx::cfg.subpage_slot, (int)registry, (int)mmu_on);
    if (mmu_on)
      c.probe("read_set_observed_with_trap_mmu");
    for (size_t i = 0; i < p.ops.size() && !c.stop; i++) {
      const Op& op = p.ops[i];
      c.cur_op = (int)i;
      c.st.steps++;
      c.st.opcount[kKind[op.kind]]++;
      fill_patterns();
      impl[0]->used.clear();
      g_fault.clear();
      switch (op.kind) {
        case B_MEMSET:
          op_memset(op);
          break;
        case B_MEMCPY_APP:
          op_memcpy(op, false);
          break;
        case B_MEMCPY_SBX:
          op_memcpy(op, true);
          break;
        case B_MEMCMP:
          op_memcmp(op);
          break;
        case B_RANGE:
          op_range(op);
          break;
        case B_STRING:
          op_string(op);
          break;
        case B_BUFADDR:
          op_bufaddr(op, false);
          break;
        case B_UNVERIFIED_PTR:
          op_bufaddr(op, true);
          break;
        case B_GRANT:
          op_grant(op);
          break;
        case B_DENY:
          op_deny(op);
          break;
        case B_MEMCMP_CELL:
          op_memcmp_cell(op);
          break;
      }
    }
    for (int i = 0; i < NS; i++) {
      attempt([&] { sb[i]->destroy_sandbox(); });
      sb[i].reset();
    }
    munmap(arena, ARENA);
    run_end();
    C = nullptr;
  }
};

int main(int argc, char** argv)
{
  libs().push_back({});
  install_crash_handlers("replays");
  mmu::install(crash_handler);
  BulkWorld w;
  return sim_main(w, argc, argv);
}
