// World `apptoken` — property C15.
// Layer 0: rlbox::app_pointer_map<uint8_t> driven directly (public template),
//          per-run limit 1..255 (255 = the largest value of the token type).
// Layer 1: rlbox_sandbox<sim>::get_app_pointer / lookup_app_ptr with owner
//          objects that are moved, move-assigned (onto empty / live / self),
//          unregistered and destroyed; region 256 B (limit 255), 4 KiB (limit 4095) or 64 KiB.
#include "../sim/world_common.hpp"
#include "../sim/aligned_new.hpp" // fresh heap blocks hold 0xA5: a member left unwritten by a constructor is visible, and the same in every execution
#include "rlbox_noop_sandbox.hpp"
#include <memory>
#include <optional>

using namespace sim;
using Sbx = rlbox::rlbox_sim_sandbox;

enum Kind
{
  K_REG,
  K_REG_MANY,
  K_RELEASE,
  K_LOOKUP_LIVE,
  K_LOOKUP_DEAD,
  K_LOOKUP_RAW,
  K_MOVE_CONSTRUCT,
  K_MOVE_ASSIGN,
  K_SELF_ASSIGN,
  K_UNREGISTER,
  K_DESTROY,
  K_RECREATE,
  K_COUNT
};
static const char* kKind[] = { "reg",       "reg_many",   "release",        "lookup_live",
                               "lookup_dead", "lookup_raw", "move_construct", "move_assign",
                               "self_assign", "unregister", "destroy", "recreate_sandbox" };

static int g_objs[8192];

struct AppTokenWorld : World
{
  std::set<std::pair<int, uint32_t>> small_states; // (limit, live mask) for limit<=6
  const char* name() const override { return "apptoken"; }
  const char* op_name(int k) const override { return kKind[k]; }
  int op_kind_count() const override { return K_COUNT; }

  Plan generate(Rng& r, bool thorough) override
  {
    Plan p;
    int layer = r.chance(1, 2) ? 0 : r.chance(3, 4) ? 1 : 2;
    int64_t limit;
    if (layer == 2) {
      limit = 1LL << 40; // noop: 64-bit tokens, exhaustion unreachable
    } else if (layer == 0) {
      unsigned c = (unsigned)r.below(10);
      limit = c < 5 ? r.range(1, 6) : c < 6 ? 254 : c < 7 ? 255 : r.range(7, 253);
    } else {
      limit = r.chance(1, 2) ? 255 : r.chance(3, 4) ? 4095 : 65535; // region size - 1 (a 256-byte region is exhausted quickly: tokens right below the limit are in use)
    }
    p.cfg = { layer, limit, (int64_t)r.chance(1, 3) };
    int n = (int)r.range(3, thorough ? 60 : 40);
    std::vector<unsigned> w;
    if (layer == 0)
      w = { 30, 6, 18, 12, 8, 6, 0, 0, 0, 0, 0, 0 };
    else
      w = { 22, 5, 0, 12, 8, 6, 8, 12, 3, 8, 10, 4 };
    // swarm: randomly mute some op kinds
    for (auto& x : w)
      if (x && r.chance(1, 6))
        x = 0;
    if (w[K_REG] == 0)
      w[K_REG] = 10;
    if (layer == 1 && limit == 4095 && r.chance(1, 10)) {
      // swarm mode "shrink": fill the token space, then re-create the sandbox with 256 bytes while every owner
      // survives, then register again - every token the new incarnation could issue is taken
      Op fill;
      fill.kind = K_REG_MANY;
      fill.a[0] = 300;
      Op shrinkop;
      shrinkop.kind = K_RECREATE;
      shrinkop.a[1] = 1;
      Op drop; // one owner whose token lies above what the small incarnation can hold gives it up
      drop.kind = K_DESTROY;
      drop.a[0] = 270 + (int64_t)r.below(20);
      Op reg;
      reg.kind = K_REG;
      p.ops = r.chance(1, 2) ? std::vector<Op>{ fill, drop, shrinkop, reg, reg } : std::vector<Op>{ fill, shrinkop, drop, reg, reg };
      if (r.chance(1, 2)) {
        // ... after two owners of small tokens have given theirs up: what was released below and above the new limit,
        // in that order, and two registrations afterwards
        Op low1, low2;
        low1.kind = low2.kind = K_DESTROY;
        low1.a[0] = (int64_t)r.below(100);
        low2.a[0] = 100 + (int64_t)r.below(100);
        p.ops = { fill, low1, low2, drop, shrinkop, reg, reg, reg };
      }
    }
    for (int i = 0; i < n; i++) {
      Op o;
      o.kind = (int)r.weighted(w);
      o.a[0] = (int64_t)r.below(64);
      o.a[1] = (int64_t)r.below(64);
      if (o.kind == K_REG_MANY) {
        unsigned c = (unsigned)r.below(4);
        o.a[0] = c == 0 ? limit : c == 1 ? limit + 3 : (int64_t)r.below((uint64_t)limit + 2);
        if (o.a[0] > 5000)
          o.a[0] = r.range(1, 300);
      }
      if (o.kind == K_LOOKUP_RAW)
        o.a[0] = r.chance(1, 3) ? 0 : (int64_t)r.below((uint64_t)limit + 3);
      p.ops.push_back(o);
    }
    return p;
  }

  // ---------------------------------------------------------------- layer 0
  void run_map(const Plan& p, Ctx& c)
  {
    int64_t limit = p.cfg.size() > 1 ? p.cfg[1] : 4;
    if (limit < 1)
      limit = 1;
    if (limit > 255)
      limit = 255;
    if (limit == 255)
      c.probe("token_limit_is_largest_value_of_token_type");
    rlbox::app_pointer_map<uint8_t> map;
    std::map<unsigned, void*> model; // token -> pointer
    std::vector<unsigned> released; // tokens released and not reissued
    int next_obj = 0;
    auto record_state = [&] {
      if (limit <= 6) {
        uint32_t m = 0;
        for (auto& [t, _] : model)
          m |= 1u << t;
        small_states.insert({ (int)limit, m });
      }
    };
    auto do_reg = [&](const char* opn) -> bool {
      void* ptr = &g_objs[next_obj++ % 8192];
      if (next_obj % 7 == 3) {
        ptr = nullptr; // a null application pointer is a pointer like any other: it gets a token that resolves to it
        c.probe("null_application_pointer_registered");
      }
      unsigned tok = 0;
      Outcome o = attempt([&] { tok = map.get_app_pointer_idx(ptr, (uint8_t)limit); });
      bool full = model.size() >= (size_t)limit;
      c.ev("reg -> %s tok=%u", oname(o), tok);
      if (full) {
        c.probe("token_space_exhausted");
        if (o != ABORT) {
          c.violate("C15", std::string("full_table_issued_token@") + opn, "limit=%lld live=%zu got token %u", (long long)limit, model.size(), tok);
          return false;
        }
        return true;
      }
      if (o != OK) {
        c.violate("C15", std::string("registration_refused_with_free_token@") + opn, "limit=%lld live=%zu", (long long)limit, model.size());
        return false;
      }
      if (tok == 0 || tok > (unsigned)limit || model.count(tok)) {
        c.violate("C15",
                  std::string(tok == 0 ? "zero_token@" : tok > (unsigned)limit ? "token_over_limit@" : "duplicate_token@") + opn,
                  "limit=%lld token=%u live=%zu",
                  (long long)limit,
                  tok,
                  model.size());
        return false;
      }
      auto it = std::find(released.begin(), released.end(), tok);
      if (it != released.end()) {
        released.erase(it);
        c.probe("token_reused_after_release");
      }
      model[tok] = ptr;
      return true;
    };
    unsigned last_tok = 0;
    for (size_t i = 0; i < p.ops.size() && !c.stop; i++) {
      const Op& op = p.ops[i];
      c.cur_op = (int)i;
      c.st.steps++;
      c.st.opcount[kKind[op.kind]]++;
      c.ev("op %zu %s %lld", i, kKind[op.kind], (long long)op.a[0]);
      switch (op.kind) {
        case K_REG: {
          size_t before = model.size();
          if (!do_reg("reg"))
            break;
          if (model.size() > before) {
            unsigned t = 0;
            for (auto& [k, v] : model)
              if (v == &g_objs[(next_obj - 1) % 8192])
                t = k;
            if (last_tok && t && t < last_tok)
              c.probe("cursor_wrapped");
            last_tok = t;
          }
          break;
        }
        case K_REG_MANY: {
          int64_t n = op.a[0];
          if (n > 300)
            n = 300;
          for (int64_t k = 0, full = 0; k < n && !c.stop && full < 2; k++) {
            if (model.size() >= (size_t)limit)
              full++;
            if (!do_reg("reg_many"))
              break;
          }
          break;
        }
        case K_RELEASE: {
          if (model.empty())
            break;
          auto it = model.begin();
          std::advance(it, (long)((uint64_t)op.a[0] % model.size()));
          unsigned tok = it->first;
          Outcome o = attempt([&] { map.remove_app_ptr((uint8_t)tok); });
          c.ev("release %u -> %s", tok, oname(o));
          if (o != OK) {
            c.violate("C15", "release_of_live_token_aborts@release", "token=%u", tok);
            break;
          }
          model.erase(it);
          released.push_back(tok);
          break;
        }
        case K_LOOKUP_LIVE: {
          if (model.empty())
            break;
          auto it = model.begin();
          std::advance(it, (long)((uint64_t)op.a[0] % model.size()));
          void* got = nullptr;
          Outcome o = attempt([&] { got = map.lookup_index((uint8_t)it->first); });
          c.ev("lookup %u -> %s", it->first, oname(o));
          if (o != OK || got != it->second)
            c.violate("C15", "live_token_wrong_pointer@lookup_live", "token=%u outcome=%s", it->first, oname(o));
          break;
        }
        case K_LOOKUP_DEAD: {
          if (released.empty())
            break;
          unsigned tok = released[(uint64_t)op.a[0] % released.size()];
          void* got = nullptr;
          Outcome o = attempt([&] { got = map.lookup_index((uint8_t)tok); });
          c.ev("lookup dead %u -> %s", tok, oname(o));
          c.probe("lookup_of_released_token");
          if (o != ABORT)
            c.violate("C15", "released_token_still_resolves@lookup_dead", "token=%u", tok);
          break;
        }
        case K_LOOKUP_RAW: {
          unsigned tok = (unsigned)((uint64_t)op.a[0] % 256);
          if (tok == 0 || model.count(tok))
            break; // statement is about non-zero tokens that are not live
          void* got = nullptr;
          Outcome o = attempt([&] { got = map.lookup_index((uint8_t)tok); });
          c.ev("lookup raw %u -> %s", tok, oname(o));
          if (o != ABORT)
            c.violate("C15", "never_issued_token_resolves@lookup_raw", "token=%u", tok);
          break;
        }
        default:
          break;
      }
      record_state();
      // invariant sweep: every live token resolves to its pointer
      for (auto& kv : model) {
        unsigned t = kv.first;
        void* ptr = kv.second;
        void* got = nullptr;
        Outcome o = attempt([&] { got = map.lookup_index((uint8_t)t); });
        if (o != OK || got != ptr) {
          c.violate("C15", std::string("live_token_wrong_pointer@") + kKind[op.kind], "token=%u", t);
          break;
        }
      }
    }
  }

  // ---------------------------------------------------------------- layer 1
  template<class SbxT>
  void run_owner(const Plan& p, Ctx& c)
  {
    using Sandbox = rlbox::rlbox_sandbox<SbxT>;
    using Owner = rlbox::app_pointer<int*, SbxT>;
    constexpr bool is_sim = std::is_same_v<SbxT, Sbx>;
    int64_t limit = p.cfg.size() > 1 ? p.cfg[1] : 4095;
    Sbx::cfg = Sbx::Config();
    Sbx::cfg.size = limit >= 65535 ? 65536 : limit <= 255 ? 256 : 4096;
    if (is_sim && p.cfg.size() > 2 && p.cfg[2]) {
      Sbx::cfg.location_shift = 64; // the backend's reported memory location is not the address of representation 0
      c.probe("backend_location_is_not_address_of_representation_0");
    }
    limit = is_sim ? (int64_t)Sbx::cfg.size - 1 : INT64_MAX; // noop: the whole address space
    run_begin(&c);
    {
      auto sbp = std::make_unique<Sandbox>();
      Sandbox& sb = *sbp;
      uintptr_t base = 0;
      if constexpr (is_sim) {
        sb.create_sandbox(0);
        base = (uintptr_t)sb.get_sandbox_impl()->mem.base;
      } else {
        sb.create_sandbox();
      }
      struct Slot
      {
        std::unique_ptr<Owner> o;
        uint64_t tok = 0; // model: 0 = holds nothing
        int* ptr = nullptr;
        int inc = 0; // sandbox incarnation in which the token was issued (to_tainted() caches an address of that incarnation)
      };
      int incarnation = 0;
      std::vector<Slot> slots;
      std::map<uint64_t, int*> model;
      std::vector<uint64_t> released;
      int next_obj = 0;
      auto live_slots = [&] {
        std::vector<size_t> v;
        for (size_t i = 0; i < slots.size(); i++)
          if (slots[i].o && slots[i].tok)
            v.push_back(i);
        return v;
      };
      auto existing = [&] {
        std::vector<size_t> v;
        for (size_t i = 0; i < slots.size(); i++)
          if (slots[i].o)
            v.push_back(i);
        return v;
      };
      auto raw_lookup = [&](uint64_t tok, int*& got) {
        return attempt([&] {
          rlbox::tainted<int*, SbxT> t;
          t.assign_raw_pointer(sb, reinterpret_cast<int*>(base + tok));
          got = sb.lookup_app_ptr(t);
        });
      };
      auto do_reg = [&](const char* opn) -> bool {
        int* ptr = &g_objs[next_obj++ % 8192];
        if (next_obj % 5 == 2 && next_obj > 1) {
          ptr = &g_objs[(next_obj - 2) % 8192]; // the pointer registered just before, once more: a second, different token for it
          c.probe("same_application_pointer_registered_twice");
        }
        if (next_obj % 7 == 3) {
          ptr = nullptr; // a null application pointer is a pointer like any other: it gets a token that resolves to it
          c.probe("null_application_pointer_registered");
        }
        Slot s;
        Outcome o = attempt([&] { s.o = std::make_unique<Owner>(sb.get_app_pointer(ptr)); });
        size_t within = 0; // live tokens that count against the current limit (older incarnations may have issued larger ones)
        for (auto& kv : model)
          within += kv.first <= (uint64_t)limit;
        bool full = within >= (size_t)limit;
        if (full) {
          c.probe("token_space_exhausted");
          if (o != ABORT) {
            c.violate("C15", std::string("full_table_issued_token@") + opn, "limit=%lld outcome=%s token=%llu", (long long)limit, oname(o), s.o ? (unsigned long long)(uintptr_t)s.o->UNSAFE_sandboxed(sb) : 0ULL);
            return false;
          }
          return true;
        }
        if (o != OK) {
          c.violate("C15", std::string("registration_refused_with_free_token@") + opn, "live=%zu msg=%s", model.size(), g_last_abort_msg.c_str());
          return false;
        }
        uint64_t tok = (uint64_t)(uintptr_t)s.o->UNSAFE_sandboxed(sb);
        auto addr = (uintptr_t)s.o->to_tainted().UNSAFE_unverified();
        c.ev("reg -> tok=%llu", (unsigned long long)tok);
        if (tok == 0 || tok > (uint64_t)limit || model.count(tok)) {
          c.violate("C15",
                    std::string(tok == 0 ? "zero_token@" : tok > (uint64_t)limit ? "token_over_limit@" : "duplicate_token@") + opn,
                    "token=%llu live=%zu",
                    (unsigned long long)tok,
                    model.size());
          return false;
        }
        if (addr != base + tok || s.o->is_unregistered()) {
          c.violate("C15", std::string("owner_designates_wrong_address@") + opn, "token=%llu addr-base=%lld", (unsigned long long)tok, (long long)(addr - base));
          return false;
        }
        {
          // the token just issued resolves to its pointer (whatever its value, right up to the limit)
          int* back = nullptr;
          auto tt = s.o->to_tainted();
          Outcome lo = attempt([&] { back = sb.lookup_app_ptr(tt); });
          if (lo != OK || back != ptr) {
            c.violate("C15", std::string("live_token_wrong_pointer@") + opn, "token=%llu (limit %lld) looked up right after it was issued: %s", (unsigned long long)tok, (long long)limit, oname(lo));
            return false;
          }
          if (tok + 4 > (uint64_t)limit && is_sim)
            c.probe("token_within_a_pointee_of_the_limit_looked_up");
        }
        auto it = std::find(released.begin(), released.end(), tok);
        if (it != released.end()) {
          released.erase(it);
          c.probe("token_reused_after_release");
        }
        s.tok = tok;
        s.ptr = ptr;
        s.inc = incarnation;
        model[tok] = ptr;
        slots.push_back(std::move(s));
        return true;
      };
      auto release_model = [&](Slot& s) {
        if (s.tok) {
          model.erase(s.tok);
          released.push_back(s.tok);
          s.tok = 0;
          s.ptr = nullptr;
        }
      };

      for (size_t i = 0; i < p.ops.size() && !c.stop; i++) {
        const Op& op = p.ops[i];
        c.cur_op = (int)i;
        c.st.steps++;
        c.st.opcount[kKind[op.kind]]++;
        c.ev("op %zu %s %lld %lld", i, kKind[op.kind], (long long)op.a[0], (long long)op.a[1]);
        const char* opn = kKind[op.kind];
        switch (op.kind) {
          case K_REG:
            if ((uint64_t)op.a[1] % 8 == 5) {
              // an owner that lives in a scope which is left by an exception: the unwinding destroys it like any other
              // way out of the scope would, and its token is released
              int* ptr = &g_objs[next_obj++ % 8192];
              uint64_t tok = 0;
              Outcome o = attempt([&] {
                Owner scoped = sb.get_app_pointer(ptr);
                tok = (uint64_t)(uintptr_t)scoped.UNSAFE_sandboxed(sb);
                throw std::runtime_error("scripted failure in the scope that owns the application pointer");
              });
              c.ev("owner destroyed by unwinding tok=%llu -> %s", (unsigned long long)tok, oname(o));
              if (tok != 0) {
                c.probe("owner_destroyed_by_exception_unwinding");
                int* got = nullptr;
                Outcome lo = raw_lookup(tok, got);
                if (lo != ABORT && !model.count(tok))
                  c.violate("C15", "released_token_still_resolves@reg", "token=%llu belonged to an owner that an exception destroyed", (unsigned long long)tok);
                else if (!model.count(tok) && std::find(released.begin(), released.end(), tok) == released.end())
                  released.push_back(tok);
              }
              break;
            }
            do_reg(opn);
            break;
          case K_REG_MANY: {
            int64_t n = op.a[0];
            if (n > 5000)
              n = 5000;
            for (int64_t k = 0, full = 0; k < n && !c.stop && full < 2; k++) {
              if (model.size() >= (size_t)limit)
                full++;
              if (!do_reg(opn))
                break;
            }
            break;
          }
          case K_LOOKUP_LIVE: {
            auto lv = live_slots();
            if (lv.empty())
              break;
            Slot& s = slots[lv[(uint64_t)op.a[0] % lv.size()]];
            if (s.tok > (uint64_t)limit)
              break; // issued by an incarnation with more memory: cannot be expressed as a pointer into the current one
            int* got = nullptr;
            Outcome o;
            if (s.inc == incarnation) {
              auto t = s.o->to_tainted();
              o = attempt([&] { got = sb.lookup_app_ptr(t); });
            } else {
              o = raw_lookup(s.tok, got); // the owner's cached address belongs to the memory of an earlier incarnation
            }
            if (o != OK || got != s.ptr)
              c.violate("C15", "live_token_wrong_pointer@lookup_live", "token=%llu outcome=%s", (unsigned long long)s.tok, oname(o));
            break;
          }
          case K_LOOKUP_DEAD: {
            if (released.empty())
              break;
            uint64_t tok = released[(uint64_t)op.a[0] % released.size()];
            int* got = nullptr;
            Outcome o = raw_lookup(tok, got);
            c.ev("lookup dead %llu -> %s", (unsigned long long)tok, oname(o));
            c.probe("lookup_of_released_token");
            if (o != ABORT)
              c.violate("C15", "released_token_still_resolves@lookup_dead", "token=%llu", (unsigned long long)tok);
            break;
          }
          case K_LOOKUP_RAW: {
            uint64_t tok = (uint64_t)op.a[0] % (is_sim ? (uint64_t)(limit + 1) : (uint64_t)10000);
            if (tok == 0 || model.count(tok))
              break;
            int* got = nullptr;
            Outcome o = raw_lookup(tok, got);
            if (o != ABORT)
              c.violate("C15", "never_issued_token_resolves@lookup_raw", "token=%llu", (unsigned long long)tok);
            break;
          }
          case K_MOVE_CONSTRUCT: {
            auto ex = existing();
            if (ex.empty())
              break;
            size_t si = ex[(uint64_t)op.a[0] % ex.size()];
            Slot n;
            n.o = std::make_unique<Owner>(std::move(*slots[si].o));
            n.tok = slots[si].tok;
            n.ptr = slots[si].ptr;
            n.inc = slots[si].inc;
            slots[si].tok = 0;
            slots[si].ptr = nullptr;
            c.probe("owner_moved");
            if (!slots[si].o->is_unregistered())
              c.violate("C15", "moved_from_owner_not_inert@move_construct", "slot=%zu", si);
            if (n.tok == 0)
              c.probe("owner_move_constructed_from_inert_source");
            if (n.o->is_unregistered() != (n.tok == 0)) {
              // the new owner claims something the source never had (or lost what it had); its destructor cannot be trusted
              c.violate("C15", "move_constructed_owner_state_wrong@move_construct", "source_tok=%llu claims_registered=%d", (unsigned long long)n.tok, (int)!n.o->is_unregistered());
              (void)n.o.release();
              break;
            }
            slots.push_back(std::move(n));
            break;
          }
          case K_MOVE_ASSIGN: {
            if ((uint64_t)op.a[1] % 8 == 6) {
              // an owner of this sandbox is overwritten by an owner that belongs to ANOTHER live sandbox of the same type: the
              // token it held is given back to the table that issued it (this sandbox's), the token it takes over stays valid
              // in the other sandbox, and nothing else in either table changes
              size_t within = 0;
              for (auto& kv : model)
                within += kv.first <= (uint64_t)limit;
              if (within >= (size_t)limit)
                break;
              c.probe("owner_overwritten_by_owner_of_another_sandbox");
              auto sb2p = std::make_unique<Sandbox>();
              Sandbox& sb2 = *sb2p;
              if constexpr (is_sim)
                sb2.create_sandbox(0);
              else
                sb2.create_sandbox();
              int* r = &g_objs[next_obj++ % 8192];
              int* q = &g_objs[next_obj++ % 8192];
              std::vector<std::unique_ptr<Owner>> pre; // tokens already taken in the other sandbox: the two tokens coincide in some runs and differ in others
              std::unique_ptr<Owner> d, f;
              uint64_t t1 = 0, t2 = 0;
              auto leak = [&] { // after a deviation the objects are not trusted to run their destructors
                (void)d.release();
                (void)f.release();
                for (auto& x : pre)
                  (void)x.release();
                (void)sb2p.release();
              };
              size_t npre = (uint64_t)op.a[0] % 3;
              Outcome o = attempt([&] {
                for (size_t k = 0; k < npre; k++)
                  pre.push_back(std::make_unique<Owner>(sb2.get_app_pointer(&g_objs[k])));
                d = std::make_unique<Owner>(sb.get_app_pointer(r));
                f = std::make_unique<Owner>(sb2.get_app_pointer(q));
                t1 = (uint64_t)(uintptr_t)d->UNSAFE_sandboxed(sb);
                t2 = (uint64_t)(uintptr_t)f->UNSAFE_sandboxed(sb2);
              });
              if (o != OK || t1 == 0 || t2 == 0 || t1 > (uint64_t)limit || model.count(t1)) {
                c.violate("C15", o != OK ? "registration_refused_with_free_token@move_assign" : t1 == 0 || t2 == 0 ? "zero_token@move_assign" : t1 > (uint64_t)limit ? "token_over_limit@move_assign" : "duplicate_token@move_assign", "t1=%llu t2=%llu %s", (unsigned long long)t1, (unsigned long long)t2, oname(o));
                leak();
                break;
              }
              c.ev("foreign overwrite t1=%llu t2=%llu pre=%zu", (unsigned long long)t1, (unsigned long long)t2, npre);
              if (t1 == t2)
                c.probe("overwritten_and_overwriting_owner_hold_equal_tokens_of_different_sandboxes");
              Outcome ao = attempt([&] { *d = std::move(*f); });
              if (ao != OK) {
                c.violate("C15", "owner_overwrite_across_sandboxes_fails@move_assign", "t1=%llu t2=%llu %s msg=%s", (unsigned long long)t1, (unsigned long long)t2, oname(ao), g_last_abort_msg.c_str());
                leak();
                break;
              }
              if (!f->is_unregistered() || d->is_unregistered()) {
                c.violate("C15", "moved_from_owner_not_inert@move_assign", "across sandboxes: source inert=%d target inert=%d", (int)f->is_unregistered(), (int)d->is_unregistered());
                leak();
                break;
              }
              {
                int* got = nullptr;
                Outcome l1 = raw_lookup(t1, got);
                if (l1 != ABORT) {
                  c.violate("C15", "released_token_still_resolves@move_assign", "token=%llu belonged to an owner that an owner of another sandbox overwrote", (unsigned long long)t1);
                  leak();
                  break;
                }
                int* got2 = nullptr;
                auto tt = d->to_tainted();
                Outcome l2 = attempt([&] { got2 = sb2.lookup_app_ptr(tt); });
                if (l2 != OK || got2 != q) {
                  c.violate("C15", "live_token_wrong_pointer@move_assign", "token=%llu of the other sandbox after it changed owner: %s", (unsigned long long)t2, oname(l2));
                  leak();
                  break;
                }
                bool bad = false;
                for (size_t k = 0; k < pre.size() && !bad; k++) {
                  int* gk = nullptr;
                  auto tk = pre[k]->to_tainted();
                  Outcome lk = attempt([&] { gk = sb2.lookup_app_ptr(tk); });
                  if (lk != OK || gk != &g_objs[k]) {
                    c.violate("C15", "live_token_wrong_pointer@move_assign", "bystander token %zu of the other sandbox: %s", k, oname(lk));
                    bad = true;
                  }
                }
                if (bad) {
                  leak();
                  break;
                }
              }
              Outcome co = attempt([&] {
                d.reset();
                f.reset();
                pre.clear();
                sb2.destroy_sandbox();
              });
              if (co != OK) {
                c.violate("C15", "owner_release_fails@move_assign", "owners of the other sandbox: %s msg=%s", oname(co), g_last_abort_msg.c_str());
                leak();
                break;
              }
              if (std::find(released.begin(), released.end(), t1) == released.end())
                released.push_back(t1);
              break;
            }
            auto ex = existing();
            if (ex.size() < 2)
              break;
            size_t si = ex[(uint64_t)op.a[0] % ex.size()];
            size_t di = ex[(uint64_t)op.a[1] % ex.size()];
            if (si == di)
              break;
            if (slots[di].tok)
              c.probe("move_assign_onto_live_owner");
            *slots[di].o = std::move(*slots[si].o);
            release_model(slots[di]); // overwriting an owner releases what it held
            slots[di].tok = slots[si].tok;
            slots[di].ptr = slots[si].ptr;
            slots[di].inc = slots[si].inc;
            slots[si].tok = 0;
            slots[si].ptr = nullptr;
            if (!slots[si].o->is_unregistered())
              c.violate("C15", "moved_from_owner_not_inert@move_assign", "slot=%zu", si);
            break;
          }
          case K_SELF_ASSIGN: {
            auto ex = existing();
            if (ex.empty())
              break;
            Owner& o = *slots[ex[(uint64_t)op.a[0] % ex.size()]].o;
            Owner& alias = o;
            o = std::move(alias);
            break;
          }
          case K_UNREGISTER: {
            auto ex = existing();
            if (ex.empty())
              break;
            Slot& s = slots[ex[(uint64_t)op.a[0] % ex.size()]];
            Outcome o = attempt([&] { s.o->unregister(); });
            if (o != OK) {
              c.violate("C15", "unregister_aborts@unregister", "tok=%llu", (unsigned long long)s.tok);
              break;
            }
            release_model(s);
            break;
          }
          case K_DESTROY: {
            auto ex = existing();
            if (ex.empty())
              break;
            Slot& s = slots[ex[(uint64_t)op.a[0] % ex.size()]];
            s.o.reset();
            release_model(s);
            break;
          }
          case K_RECREATE: {
            // tokens belong to their owners, not to an incarnation of the sandbox: destroy + create leaves them all valid
            Outcome o = attempt([&] {
              sb.destroy_sandbox();
              if constexpr (is_sim) {
                // the new incarnation may have less (or more) memory: tokens of surviving owners keep their values,
                // new tokens obey the new limit
                unsigned pick = (unsigned)((uint64_t)op.a[1] % 4);
                if (pick == 1)
                  Sbx::cfg.size = 256;
                else if (pick == 2)
                  Sbx::cfg.size = 4096;
                sb.create_sandbox(0);
                base = (uintptr_t)sb.get_sandbox_impl()->mem.base;
                if ((int64_t)Sbx::cfg.size - 1 < limit)
                  c.probe("sandbox_recreated_with_less_memory");
                limit = (int64_t)Sbx::cfg.size - 1;
              } else {
                sb.create_sandbox();
              }
            });
            incarnation++;
            c.probe("sandbox_recreated_with_live_token_owners");
            if (o != OK)
              c.violate("C15", "recreate_fails@recreate_sandbox", "%s", g_last_abort_msg.c_str());
            break;
          }
          default:
            break;
        }
        if (c.stop)
          break;
        // invariants after every step (bounded sweep)
        size_t checked = 0;
        for (auto& s : slots) {
          if (!s.o)
            continue;
          bool unreg = s.o->is_unregistered();
          if (unreg != (s.tok == 0)) {
            c.violate("C15", std::string("owner_registered_flag_wrong@") + opn, "model tok=%llu is_unregistered=%d", (unsigned long long)s.tok, (int)unreg);
            break;
          }
          if (s.tok && s.tok <= (uint64_t)limit && checked < 24) {
            checked++;
            int* got = nullptr;
            Outcome o;
            if (s.inc == incarnation) {
              auto t = s.o->to_tainted();
              o = attempt([&] { got = sb.lookup_app_ptr(t); });
            } else {
              o = raw_lookup(s.tok, got);
            }
            if (o != OK || got != s.ptr || (uint64_t)(uintptr_t)s.o->UNSAFE_sandboxed(sb) != s.tok) {
              c.violate("C15", std::string("live_token_wrong_pointer@") + opn, "token=%llu outcome=%s", (unsigned long long)s.tok, oname(o));
              break;
            }
          }
        }
        // released tokens must not resolve (bounded sweep over the most recent)
        for (size_t k = 0; k < released.size() && k < 6 && !c.stop; k++) {
          uint64_t tok = released[released.size() - 1 - k];
          int* got = nullptr;
          Outcome o = raw_lookup(tok, got);
          if (o != ABORT)
            c.violate("C15", std::string("released_token_still_resolves@") + opn, "token=%llu", (unsigned long long)tok);
        }
      }
      // owners die before the sandbox object
      slots.clear();
      attempt([&] { sb.destroy_sandbox(); });
    }
    run_end();
  }

  void run(const Plan& p, Ctx& c) override
  {
    int layer = p.cfg.empty() ? 0 : (int)p.cfg[0];
    c.ev("layer %d limit %lld", layer, (long long)(p.cfg.size() > 1 ? p.cfg[1] : -1));
    if (layer == 0)
      run_map(p, c);
    else if (layer == 1)
      run_owner<Sbx>(p, c);
    else
      run_owner<rlbox::rlbox_noop_sandbox>(p, c);
  }

  std::vector<Plan> regression_plans() override
  {
    // fixed: move-assign onto a live owner must release the overwritten token
    Plan p;
    p.cfg = { 1, 4095 };
    Op a;
    a.kind = K_REG;
    Op m;
    m.kind = K_MOVE_ASSIGN;
    m.a[0] = 0;
    m.a[1] = 1;
    p.ops = { a, a, m };
    return { p };
  }

  std::string extra_summary() override
  {
    std::string s = "\"set:small_limit_states\":[";
    bool first = true;
    for (auto& [l, m] : small_states) {
      s += (first ? "\"" : ",\"") + std::to_string(l) + ":" + std::to_string(m) + "\"";
      first = false;
    }
    return s + "],\"small_limit_states_possible\":126";
  }
};

int main(int argc, char** argv)
{
  install_crash_handlers("replays");
  install_segv_handler();
  AppTokenWorld w;
  return sim_main(w, argc, argv);
}
