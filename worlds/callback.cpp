// World `callback` — properties C12 and C13.
// Backends: sim (foreign ABI, slot table of 2/4/64 entries), noop, dylib (real
// code, 64 trampoline slots).  Build variant `.tls` defines
// RLBOX_EMBEDDER_PROVIDES_TLS_STATIC_VARIABLES.
#include "../sim/world_common.hpp"
#include "../sim/aligned_new.hpp" // fresh heap blocks hold 0xA5: a member left unwritten by a constructor is visible, and the same in every execution
#include "rlbox_dylib_sandbox.hpp"
#include "rlbox_noop_sandbox.hpp"
#include <memory>
#include <optional>

#ifdef RLBOX_EMBEDDER_PROVIDES_TLS_STATIC_VARIABLES
RLBOX_NOOP_SANDBOX_STATIC_VARIABLES();
RLBOX_DYLIB_SANDBOX_STATIC_VARIABLES();
#endif

using namespace sim;
using SimSbx = rlbox::rlbox_sim_sandbox;
using NoopSbx = rlbox::rlbox_noop_sandbox;
using DylibSbx = rlbox::rlbox_dylib_sandbox;

extern "C" {
long g_multi(long (*cb)(long, unsigned), long a, unsigned b, int times);
void g_callv(void (*cb)(void));
int g_lib_id(void);
long g_multi_idx(unsigned idx, long a, unsigned b, int times); // sim only
int g_call_b(int (*cb)(short, double, char*, unsigned long), short s, double d, char* p, unsigned long ul);
}

#ifndef GUESTLIB_DIR
#  define GUESTLIB_DIR "build"
#endif

constexpr int POOL = 70;
constexpr int NSBX = 3;

// ---------------------------------------------------------------- shared state
struct CbRec
{
  int f; // function index (pool A: 0..69, pool V: 100..)
  void* sandbox;
  long a;
  unsigned b;
};
static std::vector<CbRec> g_cblog;
static std::vector<long> g_ret_script; // return values for successive callback bodies (consumed front to back)
static size_t g_ret_pos;
struct NestFrame
{
  int s, owner, times;
  long a;
  unsigned b;
};
static std::vector<NestFrame> g_nest; // consumed front to back by callback bodies
static size_t g_nest_pos;
static std::function<void(const NestFrame&)> g_nested_invoke;
static std::function<void()> g_body_action; // run once, by the first callback body of a call, before anything else
static Ctx* g_C;

static long cb_body(int f, void* sbx, long a, unsigned b)
{
  g_cblog.push_back(CbRec{ f, sbx, a, b });
  if (g_C)
    g_C->ev("callback f%d runs a=%ld b=%u", f, a, b);
  if (g_body_action) {
    auto act = std::move(g_body_action);
    g_body_action = nullptr;
    act();
  }
  if (g_nest_pos < g_nest.size()) {
    NestFrame fr = g_nest[g_nest_pos++];
    if (g_C)
      g_C->probe("nested_invoke_from_callback");
    g_nested_invoke(fr);
  }
  long r = g_ret_pos < g_ret_script.size() ? g_ret_script[g_ret_pos++] : (a * 7 + (long)b) % 1000;
  return r;
}

struct CbRecB
{
  int f;
  void* sandbox;
  short s;
  double d;
  uintptr_t p;
  unsigned long ul;
};
static std::vector<CbRecB> g_cblogB;
static int g_retB;
template<class Sbx, int N>
static rlbox::tainted<int, Sbx> cbB(rlbox::rlbox_sandbox<Sbx>& sb,
                                    rlbox::tainted<short, Sbx> s,
                                    rlbox::tainted<double, Sbx> d,
                                    rlbox::tainted<char*, Sbx> p,
                                    rlbox::tainted<unsigned long, Sbx> ul)
{
  g_cblogB.push_back(CbRecB{ 200 + N, &sb, s.UNSAFE_unverified(), d.UNSAFE_unverified(), (uintptr_t)p.UNSAFE_unverified(), ul.UNSAFE_unverified() });
  return g_retB;
}
template<class Sbx, int N>
static rlbox::tainted<long, Sbx> cbA(rlbox::rlbox_sandbox<Sbx>& sb, rlbox::tainted<long, Sbx> a, rlbox::tainted<unsigned, Sbx> b)
{
  return cb_body(N, &sb, a.UNSAFE_unverified(), b.UNSAFE_unverified());
}
// same guest-visible signature, but declared with tainted_opaque parameter and result
template<class Sbx, int N>
static rlbox::tainted_opaque<long, Sbx> cbO(rlbox::rlbox_sandbox<Sbx>& sb, rlbox::tainted_opaque<long, Sbx> a, rlbox::tainted<unsigned, Sbx> b)
{
  rlbox::tainted<long, Sbx> r = cb_body(N, &sb, rlbox::from_opaque(a).UNSAFE_unverified(), b.UNSAFE_unverified());
  return r.to_opaque();
}
template<class Sbx, int N>
static void cbV(rlbox::rlbox_sandbox<Sbx>& sb)
{
  cb_body(100 + N, &sb, 0, 0);
}

template<class Sbx>
using FnA = rlbox::tainted<long, Sbx> (*)(rlbox::rlbox_sandbox<Sbx>&, rlbox::tainted<long, Sbx>, rlbox::tainted<unsigned, Sbx>);
template<class Sbx>
using FnV = void (*)(rlbox::rlbox_sandbox<Sbx>&);

template<class Sbx>
struct RegA
{
  using Owner = rlbox::sandbox_callback<long (*)(long, unsigned), Sbx>;
  Owner (*reg)(rlbox::rlbox_sandbox<Sbx>&);
  void* key;
};
template<class Sbx, int N>
static RegA<Sbx> make_regA()
{
  using Owner = typename RegA<Sbx>::Owner;
  if constexpr (N % 5 == 4) // every fifth function of the pool uses the opaque form
    return RegA<Sbx>{ [](rlbox::rlbox_sandbox<Sbx>& sb) -> Owner { return sb.register_callback(&cbO<Sbx, N>); }, (void*)&cbO<Sbx, N> };
  else
    return RegA<Sbx>{ [](rlbox::rlbox_sandbox<Sbx>& sb) -> Owner { return sb.register_callback(&cbA<Sbx, N>); }, (void*)&cbA<Sbx, N> };
}
template<class Sbx, size_t... I>
static std::array<RegA<Sbx>, sizeof...(I)> make_poolA(std::index_sequence<I...>)
{
  return { { make_regA<Sbx, (int)I>()... } };
}
template<class Sbx, size_t... I>
static std::array<FnV<Sbx>, sizeof...(I)> make_poolV(std::index_sequence<I...>)
{
  return { { &cbV<Sbx, (int)I>... } };
}

// ---------------------------------------------------------------- sim guest library
template<int LIB>
struct G
{
  static int32_t multi(uint32_t idx, int32_t a, uint32_t b, int32_t times)
  {
    bev("guest lib%d multi(entry %u, times %d)", LIB, idx, times);
    uint32_t acc = 0;
    for (int i = 0; i < times; i++) {
      int32_t r = SimSbx::guest_call<int32_t, int32_t, uint32_t>(idx, a + i, b);
      acc = acc * 31u + (uint32_t)r;
    }
    return (int32_t)(acc & 0x7fffffffu);
  }
  static void callv(uint32_t idx)
  {
    bev("guest lib%d callv(entry %u)", LIB, idx);
    SimSbx::guest_call<void>(idx);
  }
  static int32_t lib_id() { return LIB; }
  static int32_t call_b(uint32_t idx, int16_t s, double d, uint32_t p, uint32_t ul)
  {
    bev("guest lib%d call_b(entry %u)", LIB, idx);
    return SimSbx::guest_call<int32_t, int16_t, double, uint32_t, uint32_t>(idx, s, d, p, ul) + 1;
  }
};
template<int LIB>
static std::vector<Sym> make_lib()
{
  return { { "g_call_b", (void*)&G<LIB>::call_b },
           { "g_multi", (void*)&G<LIB>::multi },
           { "g_callv", (void*)&G<LIB>::callv },
           { "g_lib_id", (void*)&G<LIB>::lib_id },
           { "g_multi_idx", (void*)&G<LIB>::multi } };
}

// ---------------------------------------------------------------- backend traits
template<class Sbx>
struct BT;
template<>
struct BT<SimSbx>
{
  static constexpr const char* name = "sim";
  static constexpr bool foreign = true;
  static int capacity() { return SimSbx::cfg.slots; }
  static bool create(rlbox::rlbox_sandbox<SimSbx>& sb, int lib) { return sb.create_sandbox(lib); }
  template<class O>
  static long multi(rlbox::rlbox_sandbox<SimSbx>& sb, O& owner, long a, unsigned b, int times)
  {
    return sb.invoke_sandbox_function(g_multi, owner, a, b, times).UNSAFE_unverified();
  }
  template<class O>
  static void callv(rlbox::rlbox_sandbox<SimSbx>& sb, O& owner)
  {
    sb.invoke_sandbox_function(g_callv, owner);
  }
  template<class O, class P>
  static int call_b(rlbox::rlbox_sandbox<SimSbx>& sb, O& owner, short s, double d, P p, unsigned long ul)
  {
    return sb.invoke_sandbox_function(g_call_b, owner, s, d, p, ul).UNSAFE_unverified();
  }
  static long expect_acc(const std::vector<long>& rs)
  {
    uint32_t acc = 0;
    for (long r : rs)
      acc = acc * 31u + (uint32_t)(int32_t)r;
    return (long)(int32_t)(acc & 0x7fffffffu);
  }
  static bool ret_representable(long r) { return r >= INT32_MIN && r <= INT32_MAX; }
};
template<>
struct BT<NoopSbx>
{
  static constexpr const char* name = "noop";
  static constexpr bool foreign = false;
  static int capacity() { return 64; }
  static bool create(rlbox::rlbox_sandbox<NoopSbx>& sb, int) { return sb.create_sandbox(); }
  template<class O>
  static long multi(rlbox::rlbox_sandbox<NoopSbx>& sb, O& owner, long a, unsigned b, int times)
  {
    return sb.template INTERNAL_invoke_with_func_ptr<decltype(g_multi)>("g_multi", reinterpret_cast<void*>(&g_multi), owner, a, b, times)
      .UNSAFE_unverified();
  }
  template<class O>
  static void callv(rlbox::rlbox_sandbox<NoopSbx>& sb, O& owner)
  {
    sb.template INTERNAL_invoke_with_func_ptr<decltype(g_callv)>("g_callv", reinterpret_cast<void*>(&g_callv), owner);
  }
  template<class O, class P>
  static int call_b(rlbox::rlbox_sandbox<NoopSbx>& sb, O& owner, short s, double d, P p, unsigned long ul)
  {
    return sb.template INTERNAL_invoke_with_func_ptr<decltype(g_call_b)>("g_call_b", reinterpret_cast<void*>(&g_call_b), owner, s, d, p, ul).UNSAFE_unverified();
  }
  static long expect_acc(const std::vector<long>& rs)
  {
    unsigned long acc = 0;
    for (long r : rs)
      acc = acc * 31u + (unsigned long)r;
    return (long)(acc & 0x7fffffffUL);
  }
  static bool ret_representable(long) { return true; }
};
template<>
struct BT<DylibSbx>
{
  static constexpr const char* name = "dylib";
  static constexpr bool foreign = false;
  static int capacity() { return 64; }
  static bool create(rlbox::rlbox_sandbox<DylibSbx>& sb, int lib)
  {
    return sb.create_sandbox(lib ? GUESTLIB_DIR "/libguest1.so" : GUESTLIB_DIR "/libguest0.so");
  }
  template<class O>
  static long multi(rlbox::rlbox_sandbox<DylibSbx>& sb, O& owner, long a, unsigned b, int times)
  {
    return sb.invoke_sandbox_function(g_multi, owner, a, b, times).UNSAFE_unverified();
  }
  template<class O>
  static void callv(rlbox::rlbox_sandbox<DylibSbx>& sb, O& owner)
  {
    sb.invoke_sandbox_function(g_callv, owner);
  }
  template<class O, class P>
  static int call_b(rlbox::rlbox_sandbox<DylibSbx>& sb, O& owner, short s, double d, P p, unsigned long ul)
  {
    return sb.invoke_sandbox_function(g_call_b, owner, s, d, p, ul).UNSAFE_unverified();
  }
  static long expect_acc(const std::vector<long>& rs) { return BT<NoopSbx>::expect_acc(rs); }
  static bool ret_representable(long) { return true; }
};

enum Kind
{
  K_REG,
  K_REGV,
  K_FILL,
  K_UNREG,
  K_DESTROY_OWNER,
  K_MOVE_CONSTRUCT,
  K_MOVE_ASSIGN,
  K_SELF_ASSIGN,
  K_CALL,
  K_CALLV,
  K_CALL_ALL,
  K_CALL_RAW,
  K_DESTROY_SBX,
  K_CREATE_SBX,
  K_REGB,
  K_CALLB,
  K_REG_UNWIND,
  K_COUNT
};
static const char* kKind[] = { "reg",         "regv", "fill",  "unreg",    "destroy_owner", "move_construct", "move_assign",
                               "self_assign", "call", "callv", "call_all", "call_raw",      "destroy_sbx",    "create_sbx", "reg_mixed_signature", "call_mixed_signature", "reg_while_unwinding" };
static_assert(sizeof(kKind) / sizeof(kKind[0]) == K_COUNT);

// ---------------------------------------------------------------- the run, per backend
template<class Sbx>
struct Runner
{
  using Sandbox = rlbox::rlbox_sandbox<Sbx>;
  using OwnerA = rlbox::sandbox_callback<long (*)(long, unsigned), Sbx>;
  using OwnerV = rlbox::sandbox_callback<void (*)(), Sbx>;
  using OwnerB = rlbox::sandbox_callback<int (*)(short, double, char*, unsigned long), Sbx>;
  struct Slot
  {
    std::unique_ptr<OwnerA> a;
    std::unique_ptr<OwnerV> v;
    std::unique_ptr<OwnerB> b;
    // model
    bool live = false; // holds a registration of the current incarnation of sandbox s
    bool stale = false; // registration belonged to an incarnation that was destroyed
    int s = -1, f = -1, inc = -1;
    bool exists() const { return a || v || b; }
    bool is_v() const { return (bool)v; }
    int kind() const { return a ? 0 : v ? 1 : 2; }
    bool flag_unregistered() const { return a ? a->is_unregistered() : v ? v->is_unregistered() : b->is_unregistered(); }
  };
  struct SbxModel
  {
    std::unique_ptr<Sandbox> sb;
    bool created = false;
    int inc = 0;
    int lib = 0;
    rlbox::tainted<char*, Sbx> buf = nullptr; // sandbox buffer used as pointer argument (sim)
    std::map<int, int> reg; // function -> slot index
    std::set<int> refused; // functions whose registration was refused for lack of capacity
  };
  Ctx& c;
  std::vector<SbxModel> S;
  std::vector<Slot> slots;
  std::array<RegA<Sbx>, POOL> poolA = make_poolA<Sbx>(std::make_index_sequence<POOL>());
  std::array<FnV<Sbx>, 8> poolV = make_poolV<Sbx>(std::make_index_sequence<8>());
  const char* opn = "";

  explicit Runner(Ctx& ctx)
    : c(ctx)
  {}
  static void* keyB(int n) { return n == 0 ? (void*)&cbB<Sbx, 0> : (void*)&cbB<Sbx, 1>; }

  std::vector<size_t> existing()
  {
    std::vector<size_t> v;
    for (size_t i = 0; i < slots.size(); i++)
      if (slots[i].exists())
        v.push_back(i);
    return v;
  }
  std::vector<size_t> live_slots(int s = -1, int kind = -1)
  {
    std::vector<size_t> v;
    for (size_t i = 0; i < slots.size(); i++)
      if (slots[i].exists() && slots[i].live && (s < 0 || slots[i].s == s) && (kind < 0 || slots[i].kind() == kind))
        v.push_back(i);
    return v;
  }
  int live_count(int s) { return (int)S[(size_t)s].reg.size(); }

  uint64_t entry_of(Slot& sl)
  {
    Sandbox& sb = *S[(size_t)sl.s].sb;
    if (sl.a)
      return (uint64_t)(uintptr_t)sl.a->UNSAFE_sandboxed(sb);
    if (sl.b)
      return (uint64_t)(uintptr_t)sl.b->UNSAFE_sandboxed(sb);
    return (uint64_t)(uintptr_t)sl.v->UNSAFE_sandboxed(sb);
  }

  void release_model(Slot& sl)
  {
    if (sl.live)
      S[(size_t)sl.s].reg.erase(sl.f);
    sl.live = false;
    sl.stale = false;
    sl.f = -1;
  }

  // C13 invariants after every step
  void invariants()
  {
    for (size_t i = 0; i < slots.size() && !c.stop; i++) {
      Slot& sl = slots[i];
      if (!sl.exists() || sl.stale)
        continue;
      bool unreg = sl.flag_unregistered();
      if (unreg != !sl.live) {
        c.violate("C13", std::string("owner_registered_flag_wrong@") + opn, "owner #%zu: model live=%d is_unregistered()=%d", i, (int)sl.live, (int)unreg);
        if (!sl.live) {
          // an owner that claims a registration it never had: its destructor cannot be trusted, leave it alone
          (void)sl.a.release();
          (void)sl.b.release();
          (void)sl.v.release();
        }
      }
    }
    for (size_t s = 0; s < S.size() && !c.stop; s++) {
      if (!S[s].created)
        continue;
      // entry points of simultaneously live registrations are pairwise distinct and non-null
      std::set<uint64_t> entries;
      for (auto& [f, si] : S[s].reg) {
        uint64_t e = entry_of(slots[(size_t)si]);
        if (e == 0) {
          c.violate("C13", std::string("registered_owner_without_entry_point@") + opn, "sandbox #%zu function %d", s, f);
          return;
        }
        if (!entries.insert(e).second) {
          c.violate("C13", std::string("two_registrations_share_entry_point@") + opn, "sandbox #%zu function %d", s, f);
          return;
        }
      }
      if constexpr (std::is_same_v<Sbx, SimSbx>) {
        // reachability is directly observable on the stub: table == model
        SimSbx* impl = S[s].sb->get_sandbox_impl();
        std::set<void*> in_table, in_model;
        for (auto& e : impl->table)
          if (e.kind == 2)
            in_table.insert(e.key);
        for (auto& [f, si] : S[s].reg)
          in_model.insert(f >= 200 ? keyB(f - 200) : f >= 100 ? (void*)poolV[(size_t)(f - 100)] : poolA[(size_t)f].key);
        if (in_table != in_model) {
          c.violate("C13",
                    std::string("reachable_set_differs_from_live_owners@") + opn,
                    "sandbox #%zu: %zu functions reachable from guest, %zu live registered owners",
                    s,
                    in_table.size(),
                    in_model.size());
          return;
        }
      }
    }
  }

  bool do_reg(int s, int f, bool from_fill)
  {
    SbxModel& m = S[(size_t)s];
    Slot sl;
    Outcome o;
    if (f >= 200)
      o = attempt([&] { sl.b = std::make_unique<OwnerB>(f == 200 ? m.sb->register_callback(&cbB<Sbx, 0>) : m.sb->register_callback(&cbB<Sbx, 1>)); });
    else if (f >= 100)
      o = attempt([&] { sl.v = std::make_unique<OwnerV>(m.sb->register_callback(poolV[(size_t)(f - 100)])); });
    else
      o = attempt([&] { sl.a = std::make_unique<OwnerA>(poolA[(size_t)f].reg(*m.sb)); });
    c.ev("register #%d f%d -> %s", s, f, oname(o));
    if (!m.created) {
      if (o != ABORT)
        c.violate("C14", std::string("registration_served_outside_window@") + opn, "sandbox #%d", s);
      return false;
    }
    if (m.reg.count(f)) {
      c.probe("duplicate_registration_attempted");
      if (o != ABORT)
        c.violate("C13", std::string("duplicate_registration_accepted@") + opn, "sandbox #%d function %d already has a live owner", s, f);
      return false;
    }
    bool full = live_count(s) >= BT<Sbx>::capacity();
    if (full) {
      c.fired("F7_capacity_exhausted");
      if (o == OK) {
        bool has_entry = sl.exists() && !sl.flag_unregistered();
        c.violate("C13",
                  std::string("registration_beyond_capacity_accepted@") + opn,
                  "sandbox #%d has %d live registrations (capacity %d); another one returned an owner (claims registered=%d)",
                  s,
                  live_count(s),
                  BT<Sbx>::capacity(),
                  (int)has_entry);
        return false;
      }
      m.refused.insert(f);
      return false;
    }
    if (o != OK) {
      c.violate("C13",
                std::string(m.refused.count(f) ? "refused_registration_blocks_later_registration@" : "registration_refused_with_free_entry@") + opn,
                "sandbox #%d function %d, %d live of capacity %d: %s",
                s,
                f,
                live_count(s),
                BT<Sbx>::capacity(),
                g_last_abort_msg.c_str());
      return false;
    }
    m.refused.erase(f);
    sl.live = true;
    sl.s = s;
    sl.f = f;
    sl.inc = m.inc;
    slots.push_back(std::move(sl));
    m.reg[f] = (int)slots.size() - 1;
    (void)from_fill;
    return true;
  }

  // guest calls entry of slot si `times` times; nested frames as scripted
  void do_call(size_t si, long a, unsigned b, int times, const std::vector<long>& rets, const std::vector<NestFrame>& nest)
  {
    Slot& sl = slots[si];
    SbxModel& m = S[(size_t)sl.s];
    g_cblog.clear();
    g_ret_script = rets;
    g_ret_pos = 0;
    g_nest = nest;
    g_nest_pos = 0;
    // expected log: outer calls interleaved with nested ones (first outer body triggers nest[0], whose body triggers nest[1] ...)
    struct Exp
    {
      int f;
      void* sb;
      long a;
      unsigned b;
    };
    std::vector<Exp> exp;
    std::vector<long> outer_results;
    bool expect_abort = false;
    {
      // simulate
      size_t rp = 0, np = 0;
      std::function<long(int, int, long, unsigned, int)> sim_invoke = [&](int s, int f, long aa, unsigned bb, int tt) -> long {
        std::vector<long> rs;
        for (int i = 0; i < tt && !expect_abort; i++) {
          exp.push_back(Exp{ f, S[(size_t)s].sb.get(), aa + i, bb });
          if (np < nest.size()) {
            NestFrame fr = nest[np++];
            Slot& ns = slots[(size_t)fr.owner];
            sim_invoke(ns.s, ns.f, fr.a, fr.b, fr.times);
            if (expect_abort)
              break;
          }
          long r = rp < rets.size() ? rets[rp++] : ((aa + i) * 7 + (long)bb) % 1000;
          if (!BT<Sbx>::ret_representable(r)) {
            expect_abort = true;
            break;
          }
          rs.push_back(r);
        }
        return BT<Sbx>::expect_acc(rs);
      };
      long top = sim_invoke(sl.s, sl.f, a, b, times);
      outer_results.push_back(top);
    }
    long got = 0;
    Outcome o = attempt([&] { got = BT<Sbx>::multi(*m.sb, *sl.a, a, b, times); });
    c.ev("call owner %zu (sandbox #%d f%d) a=%ld b=%u times=%d nest=%zu -> %s", si, sl.s, sl.f, a, b, times, nest.size(), oname(o));
    if (expect_abort) {
      c.fired("F9_unrepresentable_callback_result");
      if (o != ABORT)
        c.violate("C12", std::string("unrepresentable_result_not_refused@") + opn, "callback returned a value outside the guest's long; outcome %s", oname(o));
    } else if (o != OK) {
      c.violate("C12", std::string("callback_call_fails@") + opn, "%s: %s", oname(o), g_last_abort_msg.c_str());
      return;
    }
    // the application-side log
    size_t n = std::min(exp.size(), g_cblog.size());
    for (size_t i = 0; i < n; i++) {
      const CbRec& r = g_cblog[i];
      if (r.f != exp[i].f) {
        c.violate("C12", std::string("wrong_function_ran@") + opn, "call %zu: function %d ran, %d is registered for the entry point", i, r.f, exp[i].f);
        return;
      }
      if (r.sandbox != exp[i].sb) {
        c.violate("C12", std::string("wrong_sandbox_reference@") + opn, "call %zu (function %d): callback received a different sandbox than the one executing", i, r.f);
        return;
      }
      if (r.a != exp[i].a || r.b != exp[i].b) {
        c.violate("C12", std::string("wrong_arguments@") + opn, "call %zu: got (%ld,%u) expected (%ld,%u)", i, r.a, r.b, exp[i].a, exp[i].b);
        return;
      }
    }
    if (g_cblog.size() != exp.size()) {
      c.violate("C12", std::string("wrong_number_of_callback_runs@") + opn, "%zu runs, expected %zu", g_cblog.size(), exp.size());
      return;
    }
    if (!expect_abort && got != outer_results[0])
      c.violate("C12", std::string("wrong_result_delivered_to_guest@") + opn, "guest accumulated %ld expected %ld", got, outer_results[0]);
    if (nest.size() >= 2)
      c.probe("callback_nesting_depth_3_or_more");
  }

  void run(const Plan& p)
  {
    S.resize(NSBX);
    for (auto& m : S)
      m.sb = std::make_unique<Sandbox>();
    g_C = &c;
    g_nested_invoke = [&](const NestFrame& fr) {
      Slot& ns = slots[(size_t)fr.owner];
      long r = BT<Sbx>::multi(*S[(size_t)ns.s].sb, *ns.a, fr.a, fr.b, fr.times);
      (void)r;
    };
    int nsbx = p.cfg.size() > 2 ? (int)p.cfg[2] : 1;
    if (nsbx < 1)
      nsbx = 1;
    if (nsbx > NSBX)
      nsbx = NSBX;
    for (int s = 0; s < nsbx; s++) {
      S[(size_t)s].lib = s & 1;
      Outcome o = attempt([&] { BT<Sbx>::create(*S[(size_t)s].sb, S[(size_t)s].lib); });
      if (o == OK) {
        S[(size_t)s].created = true;
        S[(size_t)s].inc = 1;
      }
    }
    slots.reserve(4096);
    for (size_t i = 0; i < p.ops.size() && !c.stop; i++) {
      const Op& op = p.ops[i];
      c.cur_op = (int)i;
      c.st.steps++;
      c.st.opcount[kKind[op.kind]]++;
      opn = kKind[op.kind];
      c.ev("op %zu %s %lld %lld %lld %lld", i, opn, (long long)op.a[0], (long long)op.a[1], (long long)op.a[2], (long long)op.a[3]);
      int s = (int)((uint64_t)op.a[0] % (uint64_t)nsbx);
      switch (op.kind) {
        case K_REG:
          do_reg(s, (int)((uint64_t)op.a[1] % POOL), false);
          break;
        case K_REGV:
          do_reg(s, 100 + (int)((uint64_t)op.a[1] % 8), false);
          break;
        case K_FILL: {
          // register functions until `a[1]` more are live or capacity is hit twice
          int want = (int)op.a[1];
          int refusals = 0;
          for (int f = 0; f < POOL && want > 0 && refusals < 2 && !c.stop; f++) {
            if (S[(size_t)s].reg.count(f))
              continue;
            if (!S[(size_t)s].created)
              break;
            bool ok = do_reg(s, f, true);
            if (ok)
              want--;
            else
              refusals++;
          }
          break;
        }
        case K_UNREG:
        case K_DESTROY_OWNER: {
          auto ex = existing();
          if (ex.empty())
            break;
          size_t si = ex[(uint64_t)op.a[1] % ex.size()];
          Slot& sl = slots[si];
          bool was_stale = sl.stale;
          if (was_stale)
            c.probe("owner_released_after_destroy_sandbox");
          // the backend may refuse an unregistration (fault F13): the call aborts and nothing has changed - the owner still
          // holds the registration, so that it can be given up later
          bool refuse = false;
          if constexpr (std::is_same_v<Sbx, SimSbx>)
            refuse = op.kind == K_UNREG && sl.live && !was_stale && ((uint64_t)op.a[2] % 5) == 0;
          if (refuse)
            g_fault.unregister_fail = 1;
          Outcome o = attempt([&] {
            if (op.kind == K_UNREG) {
              if (sl.a)
                sl.a->unregister();
              else if (sl.b)
                sl.b->unregister();
              else
                sl.v->unregister();
            } else {
              sl.a.reset();
              sl.v.reset();
              sl.b.reset();
            }
          });
          c.ev("%s owner %zu -> %s", opn, si, oname(o));
          if (refuse) {
            bool consumed = g_fault.unregister_fail == 0;
            g_fault.clear();
            if (consumed) {
              if (o != ABORT)
                c.violate("C13", "refused_unregistration_not_reported@unreg", "the backend refused, the call returned %s", oname(o));
              break; // the model keeps the registration; the invariants below compare it with the owner and the backend table
            }
          }
          if (o != OK) {
            c.violate("C13", std::string(was_stale ? "releasing_owner_after_destroy_sandbox_not_harmless@" : "release_of_owner_aborts@") + opn, "%s", g_last_abort_msg.c_str());
            break;
          }
          release_model(sl);
          break;
        }
        case K_MOVE_CONSTRUCT: {
          auto ex = existing();
          if (ex.empty())
            break;
          size_t si = ex[(uint64_t)op.a[1] % ex.size()];
          Slot n;
          if (slots[si].a)
            n.a = std::make_unique<OwnerA>(std::move(*slots[si].a));
          else if (slots[si].b)
            n.b = std::make_unique<OwnerB>(std::move(*slots[si].b));
          else
            n.v = std::make_unique<OwnerV>(std::move(*slots[si].v));
          n.live = slots[si].live;
          n.stale = slots[si].stale;
          n.s = slots[si].s;
          n.f = slots[si].f;
          n.inc = slots[si].inc;
          slots[si].live = false;
          slots[si].stale = false;
          slots[si].f = -1;
          if (!slots[si].flag_unregistered())
            c.violate("C13", "moved_from_owner_not_inert@move_construct", "owner #%zu", si);
          slots.push_back(std::move(n));
          if (slots.back().live)
            S[(size_t)slots.back().s].reg[slots.back().f] = (int)slots.size() - 1;
          else if (!slots.back().stale)
            c.probe("owner_move_constructed_from_inert_source");
          c.probe("owner_moved");
          break;
        }
        case K_MOVE_ASSIGN: {
          auto ex = existing();
          if (ex.size() < 2)
            break;
          size_t si = ex[(uint64_t)op.a[1] % ex.size()], di = ex[(uint64_t)op.a[2] % ex.size()];
          if (si == di || slots[si].kind() != slots[di].kind())
            break;
          if (slots[di].live)
            c.probe("move_assign_onto_live_owner");
          if (slots[di].stale || slots[si].stale)
            c.probe("move_assign_involving_stale_owner");
          Outcome o = attempt([&] {
            if (slots[si].a)
              *slots[di].a = std::move(*slots[si].a);
            else if (slots[si].b)
              *slots[di].b = std::move(*slots[si].b);
            else
              *slots[di].v = std::move(*slots[si].v);
          });
          if (o != OK) {
            c.violate("C13", "move_assign_aborts@move_assign", "%s", g_last_abort_msg.c_str());
            break;
          }
          release_model(slots[di]); // overwriting an owner ends its registration
          slots[di].live = slots[si].live;
          slots[di].stale = slots[si].stale;
          slots[di].s = slots[si].s;
          slots[di].f = slots[si].f;
          slots[di].inc = slots[si].inc;
          slots[si].live = false;
          slots[si].stale = false;
          slots[si].f = -1;
          if (slots[di].live)
            S[(size_t)slots[di].s].reg[slots[di].f] = (int)di;
          if (!slots[si].flag_unregistered())
            c.violate("C13", "moved_from_owner_not_inert@move_assign", "owner #%zu", si);
          break;
        }
        case K_SELF_ASSIGN: {
          auto ex = existing();
          if (ex.empty())
            break;
          Slot& sl = slots[ex[(uint64_t)op.a[1] % ex.size()]];
          if (sl.a) {
            OwnerA& x = *sl.a;
            OwnerA& alias = x;
            x = std::move(alias);
          } else if (sl.b) {
            OwnerB& x = *sl.b;
            OwnerB& alias = x;
            x = std::move(alias);
          } else {
            OwnerV& x = *sl.v;
            OwnerV& alias = x;
            x = std::move(alias);
          }
          c.probe("self_move_assign");
          break;
        }
        case K_CALL: {
          auto lv = live_slots(-1, 0);
          if (lv.empty())
            break;
          size_t si = lv[(uint64_t)op.a[1] % lv.size()];
          long a = (long)(int32_t)op.a[2];
          unsigned b = (unsigned)op.a[3];
          int times = 1 + (int)((uint64_t)op.a[4] % 3);
          // nesting chain: a[5] encodes up to 3 nested frames (each picks a live A-owner, possibly of another sandbox)
          std::vector<NestFrame> nest;
          uint64_t code = (uint64_t)op.a[5];
          int depth = (int)(code % 4);
          code /= 4;
          for (int d = 0; d < depth; d++) {
            NestFrame fr;
            fr.owner = (int)lv[code % lv.size()];
            code /= 7;
            fr.s = slots[(size_t)fr.owner].s;
            fr.a = (long)(code % 100) - 50;
            fr.b = (unsigned)(code % 13);
            fr.times = 1 + (int)(code % 2);
            code /= 3;
            nest.push_back(fr);
            if (fr.s != slots[si].s)
              c.probe("nested_chain_crosses_sandboxes");
          }
          std::vector<long> rets;
          if ((op.a[4] / 3) % 5 == 1) {
            // hostile/unrepresentable return value on the first body (only matters on the foreign ABI)
            rets.push_back(((op.a[4] / 15) & 1) ? (1L << 40) + 5 : -(1L << 33));
          } else if ((op.a[4] / 3) % 5 == 2) {
            rets.push_back(INT32_MAX);
            rets.push_back(INT32_MIN);
          }
          // the first callback body may itself change the registrations of a sandbox (of the calling one included):
          // register a void-pool function, or give up an existing void-pool owner
          int act = (int)(((uint64_t)op.a[4] / 37) % 6);
          if (act == 1) {
            int fs = (int)(((uint64_t)op.a[4] / 222) % (uint64_t)nsbx), fv = 100 + (int)(((uint64_t)op.a[4] / 444) % 8);
            if (S[(size_t)fs].created && !S[(size_t)fs].reg.count(fv) && live_count(fs) < BT<Sbx>::capacity()) {
              g_body_action = [this, fs, fv] {
                c.probe("registration_made_inside_a_callback");
                do_reg(fs, fv, false);
              };
            }
          } else if (act == 2) {
            auto vs = live_slots(-1, 1);
            if (!vs.empty()) {
              size_t vi = vs[((uint64_t)op.a[4] / 222) % vs.size()];
              g_body_action = [this, vi] {
                c.probe("owner_released_inside_a_callback");
                Slot& vsl = slots[vi];
                Outcome ro = attempt([&] { vsl.v.reset(); });
                if (ro != OK)
                  c.violate("C13", "release_of_owner_aborts@call", "inside a callback body: %s", g_last_abort_msg.c_str());
                else
                  release_model(vsl);
              };
            }
          }
          else if (act == 4) {
            // another sandbox of the same backend type is created and destroyed while the guest of this one is inside a
            // callback: whatever the calls that follow reach must still be this sandbox's
            g_body_action = [this] {
              c.probe("another_sandbox_created_and_destroyed_inside_a_callback");
              auto tmp = std::make_unique<Sandbox>();
              Outcome ro = attempt([&] {
                if (BT<Sbx>::create(*tmp, 0))
                  tmp->destroy_sandbox();
              });
              if (ro != OK)
                c.violate("C14", "create_and_destroy_inside_a_callback_aborts@call", "%s", g_last_abort_msg.c_str());
            };
          }
          else if (act == 3 && slots[si].a) {
            // the owner of the callback that is running is moved away and back while the guest is inside it
            g_body_action = [this, si] {
              c.probe("running_callback_owner_moved_inside_its_body");
              Slot& sl = slots[si];
              Outcome ro = attempt([&] {
                OwnerA tmp(std::move(*sl.a));
                *sl.a = std::move(tmp);
              });
              if (ro != OK)
                c.violate("C13", "move_of_running_owner_aborts@call", "inside its own callback body: %s", g_last_abort_msg.c_str());
              else if (sl.a->is_unregistered())
                c.violate("C13", "registration_lost_by_moving_owner_away_and_back@call", "owner #%zu", si);
            };
          }
          do_call(si, a, b, times, rets, nest);
          g_body_action = nullptr;
          break;
        }
        case K_CALLV: {
          auto lv = live_slots(-1, 1);
          if (lv.empty())
            break;
          Slot& sl = slots[lv[(uint64_t)op.a[1] % lv.size()]];
          g_cblog.clear();
          g_nest.clear();
          g_nest_pos = 0;
          g_ret_script.clear();
          g_ret_pos = 0;
          Outcome o = attempt([&] { BT<Sbx>::callv(*S[(size_t)sl.s].sb, *sl.v); });
          if (o != OK || g_cblog.size() != 1 || g_cblog[0].f != sl.f || g_cblog[0].sandbox != S[(size_t)sl.s].sb.get())
            c.violate("C12", "void_callback_misdelivered@callv", "outcome %s runs %zu", oname(o), g_cblog.size());
          break;
        }
        case K_CALL_ALL: {
          // every live registration of sandbox s is reachable and reaches its own function
          auto lv = live_slots(s, 0);
          for (size_t k = 0; k < lv.size() && k < 70 && !c.stop; k++)
            do_call(lv[k], (long)k, 3, 1, {}, {});
          if (lv.size() >= 60)
            c.probe("sixty_or_more_simultaneous_registrations");
          break;
        }
        case K_CALL_RAW: {
          if constexpr (std::is_same_v<Sbx, SimSbx>) {
            SbxModel& m = S[(size_t)s];
            if (!m.created)
              break;
            SimSbx* impl = m.sb->get_sandbox_impl();
            uint32_t idx = (uint32_t)((uint64_t)op.a[1] % (impl->table.size() + 2));
            // which function does the model have at that entry?
            int fexp = -1;
            for (auto& [f, si] : m.reg)
              if (entry_of(slots[(size_t)si]) == idx && f < 100)
                fexp = f;
            g_cblog.clear();
            g_nest.clear();
            g_nest_pos = 0;
            g_ret_script.clear();
            g_ret_pos = 0;
            long got = 0;
            Outcome o = attempt([&] { got = m.sb->invoke_sandbox_function(g_multi_idx, idx, 5L, 6u, 1).UNSAFE_unverified(); });
            c.ev("guest calls raw entry %u -> %s", idx, oname(o));
            c.fired("F1_hostile_entry_index");
            if (fexp < 0) {
              c.probe("guest_called_vacant_or_foreign_entry");
              if (!g_cblog.empty())
                c.violate("C13",
                          "function_reachable_without_live_owner@call_raw",
                          "entry %u is not a live registration, yet application function %d ran",
                          idx,
                          g_cblog[0].f);
            } else if (o != OK || g_cblog.size() != 1 || g_cblog[0].f != fexp) {
              c.violate("C12", "wrong_function_ran@call_raw", "entry %u belongs to function %d; %zu runs, first f=%d", idx, fexp, g_cblog.size(), g_cblog.empty() ? -1 : g_cblog[0].f);
            }
          }
          break;
        }
        case K_REGB:
          do_reg(s, 200 + (int)(op.a[1] & 1), false);
          break;
        case K_REG_UNWIND: {
          // a registration made by a destructor that runs while an unrelated exception unwinds the stack is a
          // registration like any other
          int f = (int)((uint64_t)op.a[1] % POOL);
          struct InDtor
          {
            Runner& r;
            int s, f;
            ~InDtor() { r.do_reg(s, f, false); }
          };
          try {
            InDtor guard{ *this, s, f };
            throw std::runtime_error("an unrelated failure is being unwound");
          } catch (const std::runtime_error&) {
          }
          c.probe("registration_made_while_an_exception_unwinds");
          if (!c.stop && S[(size_t)s].created && S[(size_t)s].reg.count(f))
            do_reg(s, f, false); // ... in particular the same function cannot be registered a second time
          break;
        }
        case K_CALLB: {
          auto lv = live_slots(-1, 2);
          if (lv.empty())
            break;
          Slot& sl = slots[lv[(uint64_t)op.a[1] % lv.size()]];
          SbxModel& m = S[(size_t)sl.s];
          static const short ss[] = { 0, 1, -1, 32767, -32768, 300 };
          static const double ds[] = { 0.0, -0.0, 1.5, -2.25e300, 5e-324, 3.5e38 };
          static char hostbuf[64];
          short sv = ss[(uint64_t)op.a[2] % 6];
          double dv = ds[(uint64_t)op.a[3] % 6];
          unsigned long ulv = (op.a[4] & 1) ? 0xFFFFFFFFUL : (unsigned long)((uint64_t)op.a[4] * 2654435761u) & 0xFFFFFFFFUL;
          if (!BT<Sbx>::foreign && (op.a[4] & 2))
            ulv = 0xFFFFFFFF00000001UL; // host-ABI backends carry the full width
          bool nullp = (op.a[5] & 1) != 0;
          g_cblogB.clear();
          g_retB = (int)(((uint64_t)op.a[5] * 40503u) % 2000001u) - 1000000;
          int got = 0;
          uintptr_t want_p = 0;
          Outcome o = attempt([&] {
            if constexpr (std::is_same_v<Sbx, SimSbx>) {
              rlbox::tainted<char*, Sbx> p = nullptr;
              if (!nullp) {
                if (!m.buf)
                  m.buf = m.sb->template malloc_in_sandbox<char>(32);
                p = m.buf + 5;
              }
              want_p = (uintptr_t)p.UNSAFE_unverified();
              got = BT<Sbx>::call_b(*m.sb, *sl.b, sv, dv, p, ulv);
            } else {
              rlbox::tainted<char*, Sbx> p = nullptr;
              if (!nullp)
                p = m.sb->UNSAFE_accept_pointer(&hostbuf[7]);
              want_p = (uintptr_t)p.UNSAFE_unverified();
              got = BT<Sbx>::call_b(*m.sb, *sl.b, sv, dv, p, ulv);
            }
          });
          c.ev("call_mixed_signature owner f%d -> %s", sl.f, oname(o));
          c.probe("callback_with_short_double_pointer_ulong");
          if (o != OK) {
            c.violate("C12", "callback_call_fails@call_mixed_signature", "%s: %s", oname(o), g_last_abort_msg.c_str());
            break;
          }
          bool ok = g_cblogB.size() == 1;
          if (ok) {
            const CbRecB& r = g_cblogB[0];
            uint64_t d1, d2;
            memcpy(&d1, &r.d, 8);
            memcpy(&d2, &dv, 8);
            ok = r.f == sl.f && r.sandbox == m.sb.get() && r.s == sv && d1 == d2 && r.p == want_p && r.ul == ulv;
          }
          if (!ok)
            c.violate("C12", "wrong_arguments@call_mixed_signature", "%zu runs; short/double/pointer/unsigned long arguments or the function/sandbox identity differ from what the guest passed", g_cblogB.size());
          else if (got != g_retB + 1)
            c.violate("C12", "wrong_result_delivered_to_guest@call_mixed_signature", "guest received %d expected %d", got - 1, g_retB);
          break;
        }
        case K_DESTROY_SBX: {
          SbxModel& m = S[(size_t)s];
          if (!m.created)
            break;
          Outcome o = attempt([&] { m.sb->destroy_sandbox(); });
          if (o != OK) {
            c.violate("C14", "destroy_on_created_aborts@destroy_sbx", "%s", g_last_abort_msg.c_str());
            break;
          }
          m.created = false;
          for (auto& [f, si] : m.reg) {
            slots[(size_t)si].live = false;
            slots[(size_t)si].stale = true;
          }
          if (!m.reg.empty())
            c.fired("F12_destroy_sandbox_with_live_owners");
          m.reg.clear();
          m.refused.clear();
          m.buf = nullptr;
          break;
        }
        case K_CREATE_SBX: {
          SbxModel& m = S[(size_t)s];
          if (m.created)
            break;
          m.lib = (int)(op.a[1] & 1);
          Outcome o = attempt([&] { BT<Sbx>::create(*m.sb, m.lib); });
          if (o == OK) {
            m.created = true;
            m.inc++;
            c.probe("sandbox_recreated");
          }
          break;
        }
      }
      if (!c.stop)
        invariants();
    }
    // teardown: owners first (stale ones included: must be harmless), then sandboxes
    Outcome o = attempt([&] { slots.clear(); });
    if (o != OK && !c.stop)
      c.violate("C13", "release_of_owner_aborts@teardown", "%s", g_last_abort_msg.c_str());
    for (auto& m : S)
      if (m.created)
        attempt([&] { m.sb->destroy_sandbox(); });
    g_nested_invoke = nullptr;
    g_C = nullptr;
  }
};

struct CallbackWorld : World
{
  const char* name() const override { return "callback"; }
  const char* op_name(int k) const override { return kKind[k]; }
  int op_kind_count() const override { return K_COUNT; }

  Plan generate(Rng& r, bool thorough) override
  {
    Plan p;
    int backend = (int)r.below(3); // 0 sim 1 noop 2 dylib
    int slots = backend == 0 ? (r.chance(1, 3) ? 2 : r.chance(1, 2) ? 4 : 64) : 64;
    int nsbx = (int)r.range(1, NSBX);
    p.cfg = { backend, slots, nsbx };
    int n = (int)r.range(4, thorough ? 60 : 40);
    std::vector<unsigned> w = { 14, 4, 3, 6, 6, 4, 7, 2, 12, 3, 2, 4, 2, 3, 4, 7, 3 };
    for (auto& x : w)
      if (r.chance(1, 6))
        x = 0;
    if (w[K_REG] == 0)
      w[K_REG] = 10;
    bool capacity_focus = r.chance(1, 5);
    if (capacity_focus) {
      w[K_FILL] = 12;
      w[K_CALL_ALL] = 5;
    }
    for (int i = 0; i < n; i++) {
      Op o;
      o.kind = (int)r.weighted(w);
      o.a[0] = (int64_t)r.below(8);
      o.a[1] = (int64_t)r.below(capacity_focus ? 70 : 12);
      o.a[2] = (int64_t)r.below(64);
      o.a[3] = (int64_t)r.below(1000);
      if (o.kind == K_FILL)
        o.a[1] = r.chance(1, 2) ? 70 : r.range(1, 66);
      if (o.kind == K_CALL) {
        unsigned c = (unsigned)r.below(6);
        o.a[2] = c == 0 ? INT32_MAX - 4 : c == 1 ? INT32_MIN : c == 2 ? -1 : r.range(-100000, 100000);
        o.a[3] = r.chance(1, 4) ? 0xFFFFFFFFLL : (int64_t)r.below(100000);
        o.a[4] = (int64_t)r.below(60) + 60 * (int64_t)r.below(4000); // low part: times / return script; high part: what the first body does to the registrations
        o.a[5] = (int64_t)r.below(1 << 20);
      }
      if (o.kind == K_CALL_RAW)
        o.a[1] = (int64_t)r.below(80);
      p.ops.push_back(o);
    }
    return p;
  }

  void run(const Plan& p, Ctx& c) override
  {
    int backend = p.cfg.empty() ? 0 : (int)((uint64_t)p.cfg[0] % 3);
    run_begin(&c);
    SimSbx::cfg = SimSbx::Config();
    SimSbx::cfg.size = 4096;
    int sl = p.cfg.size() > 1 ? (int)p.cfg[1] : 8;
    SimSbx::cfg.slots = sl >= 1 && sl <= 64 ? sl : 8;
    c.ev("backend %d slots %d", backend, SimSbx::cfg.slots);
    if (backend == 0) {
      Runner<SimSbx> r(c);
      r.run(p);
    } else if (backend == 1) {
      Runner<NoopSbx> r(c);
      r.run(p);
    } else {
      Runner<DylibSbx> r(c);
      r.run(p);
    }
    run_end();
  }

  static Plan mk(std::vector<int64_t> cfg, std::vector<std::vector<int64_t>> ops)
  {
    Plan p;
    p.cfg = cfg;
    for (auto& o : ops) {
      Op op;
      op.kind = (int)o[0];
      for (size_t i = 1; i < o.size() && i <= NARGS; i++)
        op.a[i - 1] = o[i];
      p.ops.push_back(op);
    }
    return p;
  }
  std::vector<Plan> regression_plans() override
  {
    std::vector<Plan> v;
    for (int backend = 0; backend < 3; backend++) {
      // move-assign onto a live owner must end the overwritten registration
      v.push_back(mk({ backend, 4, 1 }, { { K_REG, 0, 1 }, { K_REG, 0, 2 }, { K_MOVE_ASSIGN, 0, 0, 1 }, { K_REG, 0, 2 } }));
      // capacity: the registration after the last free entry is refused, and works once an entry is free
      v.push_back(mk({ backend, 2, 1 }, { { K_FILL, 0, 70 }, { K_CALL_ALL, 0 }, { K_UNREG, 0, 0 }, { K_FILL, 0, 2 }, { K_CALL_ALL, 0 } }));
    }
    return v;
  }
};

int main(int argc, char** argv)
{
  libs().push_back(make_lib<0>());
  libs().push_back(make_lib<1>());
  install_crash_handlers("replays");
  install_segv_handler();
  CallbackWorld w;
  return sim_main(w, argc, argv);
}
