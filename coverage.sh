#!/bin/bash
# Source-line coverage of /repo/code/include/*.hpp reached by the simulation worlds (clang source-based coverage).
# usage: ./coverage.sh [runs-per-world]   -> prints llvm-cov report for the RLBox headers
set -e
N=${1:-3000}
OUT=${COVDIR:-/var/tmp/rlbox-cov}
rm -rf $OUT; mkdir -p $OUT
INC=/repo/code/include
FL="-std=c++17 -I$INC -Isim -O0 -g -fprofile-instr-generate -fcoverage-mapping -DGUESTLIB_DIR=\"$PWD/build\" -w"
make -s build/guestlib.o build/libguest0.so build/libguest1.so build/libguest2.so build/libguest3.so build/sched.o
bins=()
build() { # name src extra...
  local name=$1 src=$2; shift 2
  clang++ $FL "$@" worlds/$src.cpp -o $OUT/$name -lpthread -ldl $EXTRA &
}
EXTRA="" build apptoken apptoken
EXTRA="" build mem mem
EXTRA="" build mem.p64 mem -DSIM_PTR_T=uint64_t
EXTRA="build/guestlib.o" build callback callback
EXTRA="build/guestlib.o" build callback.tls callback -DRLBOX_EMBEDDER_PROVIDES_TLS_STATIC_VARIABLES
EXTRA="build/guestlib.o" build invoke invoke
EXTRA="-Wl,--wrap=malloc" build toctou toctou
EXTRA="-Wl,--wrap=malloc -Wl,--wrap=free" build bulk bulk
EXTRA="build/guestlib.o" build transition.both transition -DTR_HOOKS -DTR_TIMING
EXTRA="build/sched.o -Wl,--wrap=pthread_mutex_lock -Wl,--wrap=pthread_mutex_unlock" build threads threads
EXTRA="" build abi.wide abi -DSIM_WIDE_INT
EXTRA="build/guestlib.o" build transition.wide transition -DTR_HOOKS -DTR_TIMING -DSIM_WIDE_INT
EXTRA="-Wl,--wrap=malloc -Wl,--wrap=free" build bulk.wide bulk -DSIM_WIDE_INT
wait
objs=""
for b in apptoken mem mem.p64 callback callback.tls invoke toctou bulk transition.both threads abi.wide transition.wide bulk.wide; do
  n=$N; [ $b = toctou ] && n=$((N/4))
  LLVM_PROFILE_FILE=$OUT/$b.profraw $OUT/$b --seed 99 --count $n --enum-count 600 --regress --det-every 0 --outdir $OUT >/dev/null 2>&1 || true
  objs="$objs -object $OUT/$b"
done
llvm-profdata-14 merge -sparse $OUT/*.profraw -o $OUT/all.profdata
llvm-cov-14 report ${objs# -object} -instr-profile=$OUT/all.profdata $INC/*.hpp 2>/dev/null | tail -25
llvm-cov-14 show ${objs# -object} -instr-profile=$OUT/all.profdata $INC/rlbox.hpp $INC/rlbox_sandbox.hpp $INC/rlbox_stdlib.hpp $INC/rlbox_policy_types.hpp $INC/rlbox_conversion.hpp $INC/rlbox_app_pointer.hpp $INC/rlbox_range.hpp $INC/rlbox_noop_sandbox.hpp $INC/rlbox_dylib_sandbox.hpp -show-line-counts-or-regions > $OUT/show.txt 2>/dev/null || true
echo "annotated source: $OUT/show.txt"
