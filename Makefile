# Builds the simulation worlds against /repo's current working tree.
REPO ?= /repo
INC  := $(REPO)/code/include
HDRS := $(wildcard $(INC)/*.hpp)
SIMH := $(wildcard sim/*.hpp)
CXX  ?= g++
CC   ?= gcc
CLANGXX ?= clang++
B := build
ABSB := $(abspath $(B))
COMMON := -std=c++17 -I$(INC) -Isim -g -Wall -Wno-unused-function -Wno-unused-variable -Wno-sign-compare -Wno-unused-but-set-variable -Wno-mismatched-new-delete -DALLENABY_RLBOX_VERIF -DGUESTLIB_DIR='"$(ABSB)"'
PLAIN := $(COMMON) -O1
ASAN  := $(COMMON) -O1 -fsanitize=address -fno-omit-frame-pointer -DSIM_BUILD_NAME='"asan"'
TLS   := $(COMMON) -O1 -DRLBOX_EMBEDDER_PROVIDES_TLS_STATIC_VARIABLES -DSIM_BUILD_NAME='"tls"'
LIBS := -lpthread -ldl
MUTEXWRAP := -Wl,--wrap=pthread_mutex_lock -Wl,--wrap=pthread_mutex_unlock

TARGETS := apptoken abi abi.wide mem mem.p64 mem.pvoid callback callback.tls invoke toctou toctou.asan bulk bulk.asan bulk.nogrant bulk.wide transition.hooks transition.inonly transition.outonly transition.timing transition.both transition.wide threads threads.tsan threads.tls

all: $(addprefix $(B)/,$(TARGETS))

GUESTSO := $(B)/libguest0.so $(B)/libguest1.so $(B)/libguest2.so $(B)/libguest3.so

$(B)/guestlib.o: sim/guestlib.c | $(B)
	$(CC) -O1 -g -c $< -o $@
$(B)/libguest%.so: sim/guestlib.c | $(B)
	$(CC) -O1 -g -shared -fPIC -DLIB_ID=$* $< -o $@

$(B)/callback: worlds/callback.cpp $(B)/guestlib.o $(GUESTSO) $(HDRS) $(SIMH) | $(B)
	$(CXX) $(PLAIN) $< $(B)/guestlib.o -o $@ $(LIBS)
$(B)/callback.tls: worlds/callback.cpp $(B)/guestlib.o $(GUESTSO) $(HDRS) $(SIMH) | $(B)
	$(CXX) $(TLS) $< $(B)/guestlib.o -o $@ $(LIBS)

$(B)/invoke: worlds/invoke.cpp $(B)/guestlib.o $(GUESTSO) $(HDRS) $(SIMH) | $(B)
	$(CXX) $(PLAIN) $< $(B)/guestlib.o -o $@ $(LIBS)

$(B)/toctou: worlds/toctou.cpp $(HDRS) $(SIMH) | $(B)
	$(CXX) $(PLAIN) $< -o $@ $(LIBS) -Wl,--wrap=malloc
$(B)/toctou.asan: worlds/toctou.cpp $(HDRS) $(SIMH) | $(B)
	$(CXX) $(ASAN) $< -o $@ $(LIBS) -Wl,--wrap=malloc

$(B)/bulk: worlds/bulk.cpp $(HDRS) $(SIMH) | $(B)
	$(CXX) $(PLAIN) $< -o $@ $(LIBS) -Wl,--wrap=malloc -Wl,--wrap=free
$(B)/bulk.nogrant: worlds/bulk.cpp $(HDRS) $(SIMH) | $(B)
	$(CXX) $(PLAIN) -DSIM_NO_GRANT_DENY -DSIM_BUILD_NAME='"nogrant"' $< -o $@ $(LIBS) -Wl,--wrap=malloc -Wl,--wrap=free
$(B)/bulk.wide: worlds/bulk.cpp $(HDRS) $(SIMH) | $(B)
	$(CXX) $(PLAIN) -DSIM_WIDE_INT -DSIM_BUILD_NAME='"wide"' $< -o $@ $(LIBS) -Wl,--wrap=malloc -Wl,--wrap=free
$(B)/bulk.asan: worlds/bulk.cpp $(HDRS) $(SIMH) | $(B)
	$(CXX) $(ASAN) $< -o $@ $(LIBS) -Wl,--wrap=malloc -Wl,--wrap=free

$(B)/transition.hooks: worlds/transition.cpp $(B)/guestlib.o $(HDRS) $(SIMH) | $(B)
	$(CXX) $(PLAIN) -DTR_HOOKS -DSIM_BUILD_NAME='"hooks"' $< $(B)/guestlib.o -o $@ $(LIBS)
$(B)/transition.inonly: worlds/transition.cpp $(B)/guestlib.o $(HDRS) $(SIMH) | $(B)
	$(CXX) $(PLAIN) -DTR_HOOKS_IN_ONLY -DSIM_BUILD_NAME='"inonly"' $< $(B)/guestlib.o -o $@ $(LIBS)
$(B)/transition.outonly: worlds/transition.cpp $(B)/guestlib.o $(HDRS) $(SIMH) | $(B)
	$(CXX) $(PLAIN) -DTR_HOOKS_OUT_ONLY -DSIM_BUILD_NAME='"outonly"' $< $(B)/guestlib.o -o $@ $(LIBS)
$(B)/transition.timing: worlds/transition.cpp $(B)/guestlib.o $(HDRS) $(SIMH) | $(B)
	$(CXX) $(PLAIN) -DTR_TIMING -DSIM_BUILD_NAME='"timing"' $< $(B)/guestlib.o -o $@ $(LIBS)
$(B)/transition.both: worlds/transition.cpp $(B)/guestlib.o $(HDRS) $(SIMH) | $(B)
	$(CXX) $(PLAIN) -DTR_HOOKS -DTR_TIMING -DSIM_BUILD_NAME='"both"' $< $(B)/guestlib.o -o $@ $(LIBS)

$(B)/transition.wide: worlds/transition.cpp $(B)/guestlib.o $(HDRS) $(SIMH) | $(B)
	$(CXX) $(PLAIN) -DTR_HOOKS -DTR_TIMING -DSIM_WIDE_INT -DSIM_BUILD_NAME='"wide"' $< $(B)/guestlib.o -o $@ $(LIBS)

$(B)/sched.o: sim/sched.cpp sim/sched.hpp | $(B)
	$(CXX) -std=c++17 -O1 -g -c $< -o $@
$(B)/sched.clang.o: sim/sched.cpp sim/sched.hpp | $(B)
	$(CLANGXX) -std=c++17 -O1 -g -c $< -o $@
$(B)/threads: worlds/threads.cpp $(B)/sched.o $(GUESTSO) $(HDRS) $(SIMH) | $(B)
	$(CXX) $(PLAIN) $< $(B)/sched.o -o $@ $(LIBS) $(MUTEXWRAP)
$(B)/threads.tls: worlds/threads.cpp $(B)/sched.o $(GUESTSO) $(HDRS) $(SIMH) | $(B)
	$(CXX) $(TLS) $< $(B)/sched.o -o $@ $(LIBS) $(MUTEXWRAP)
$(B)/threads.tsan: worlds/threads.cpp $(B)/sched.clang.o $(GUESTSO) $(HDRS) $(SIMH) | $(B)
	$(CLANGXX) $(COMMON) -O1 -fsanitize=thread -DTH_TIMING -DSIM_BUILD_NAME='"tsan"' $< $(B)/sched.clang.o -o $@ $(LIBS) $(MUTEXWRAP)

$(B)/mem.p64: worlds/mem.cpp $(HDRS) $(SIMH) | $(B)
	$(CXX) $(PLAIN) -DSIM_PTR_T=uint64_t -DSIM_BUILD_NAME='"p64"' $< -o $@ $(LIBS)

$(B)/abi.wide: worlds/abi.cpp $(HDRS) $(SIMH) | $(B)
	$(CXX) $(PLAIN) -DSIM_WIDE_INT -DSIM_BUILD_NAME='"wide"' $< -o $@ $(LIBS)

$(B)/mem.pvoid: worlds/mem.cpp $(HDRS) $(SIMH) | $(B)
	$(CXX) $(PLAIN) -DSIM_PTR_T=uint64_t -DSIM_PTR_AS_POINTER -DSIM_BUILD_NAME='"pvoid"' $< -o $@ $(LIBS)

$(B)/%: worlds/%.cpp $(HDRS) $(SIMH) | $(B)
	$(CXX) $(PLAIN) $< -o $@ $(LIBS)

$(B)/%.asan: worlds/%.cpp $(HDRS) $(SIMH) | $(B)
	$(CXX) $(ASAN) $< -o $@ $(LIBS)

$(B):
	mkdir -p $(B)

clean:
	rm -rf $(B)

.PHONY: all clean
.SECONDARY:
