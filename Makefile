# Builds the simulation worlds against /repo's current working tree.
REPO ?= /repo
INC  := $(REPO)/code/include
HDRS := $(wildcard $(INC)/*.hpp)
SIMH := $(wildcard sim/*.hpp)
CXX  ?= g++
CLANGXX ?= clang++
COMMON := -std=c++17 -I$(INC) -Isim -g -Wall -Wno-unused-function -Wno-unused-variable -DALLENABY_RLBOX_VERIF
PLAIN := $(COMMON) -O1
ASAN  := $(COMMON) -O1 -fsanitize=address -fno-omit-frame-pointer -DSIM_BUILD_NAME='"asan"'
B := build

WORLDS_PLAIN := apptoken mem
WORLDS_ASAN  :=

all: $(addprefix $(B)/,$(WORLDS_PLAIN)) $(addprefix $(B)/,$(addsuffix .asan,$(WORLDS_ASAN)))

$(B)/%: worlds/%.cpp $(HDRS) $(SIMH) | $(B)
	$(CXX) $(PLAIN) $< -o $@ -lpthread -ldl

$(B)/%.asan: worlds/%.cpp $(HDRS) $(SIMH) | $(B)
	$(CXX) $(ASAN) $< -o $@ -lpthread -ldl

$(B):
	mkdir -p $(B)

clean:
	rm -rf $(B)

.PHONY: all clean
