#!/usr/bin/env python3
"""Regenerates MANIFEST.json from props.py (single source of truth for commands)."""
import json, os, sys
HERE = os.path.dirname(os.path.abspath(__file__))
sys.path.insert(0, HERE)
from props import PROPS
from manifest_text import TEXT, NOT_APPLICABLE, NOTES

checks = []
for pid in sorted(PROPS):
    t = TEXT[pid]
    checks.append({
        'property_id': pid,
        'quick_cmd': './check %s --tier quick' % pid,
        'thorough_cmd': './check %s --tier thorough' % pid,
        'evidence_file': '/verif/evidence/%s.json' % pid,
        'replay_cmd_template': './check %s --replay {path}' % pid,
        'engine': 'dst',
        'level_claimed': {'category': PROPS[pid]['level'], 'text': t['level_text'], 'design_ref': t['design_ref']},
        'level_note': t['level_note'],
        'technique': t['technique'],
    })
import json as _j
_all=[_j.loads(l)['id'] for l in open(os.path.join(HERE,'properties.jsonl'))]
_na=list(NOT_APPLICABLE)
for pid in _all:
    if pid not in PROPS and pid not in [x['property_id'] for x in _na]:
        _na.append({'property_id': pid, 'reason': 'not claimed yet: the simulation world for this property is still under construction in this session (DESIGN.md section 5 describes it)'})
_na.sort(key=lambda x: x['property_id'])
m = {
    'version': 1,
    'setup_cmd': 'make -s -j16 all',
    'hooks': {
        'guard': 'ALLENABY_RLBOX_VERIF',
        'enable': 'no source hook exists in /repo: all seams are link-time/preprocessor extension points the library already offers (see DESIGN.md 3.1); the worlds are compiled with -DALLENABY_RLBOX_VERIF for form',
        'baseline_off_cmd': 'cmake --build /repo/_build && ctest --test-dir /repo/_build -j8',
        'source_commits': [],
        'add_only': True,
    },
    'engines': [{
        'name': 'dst', 'path': '/verif/check',
        'serves_properties': sorted(PROPS),
        'kind_free_text': 'deterministic simulation with fault injection: seeded plan generation, real RLBox headers from /repo against a foreign-ABI backend stub and scripted hostile guest, reference models as oracles, shrinking + replay files, fresh-process replay gate',
    }],
    'checks': checks,
    'not_applicable': _na,
    'notes': NOTES,
}
json.dump(m, open(os.path.join(HERE, 'MANIFEST.json'), 'w'), indent=1)
print('wrote MANIFEST.json with', len(checks), 'checks')
