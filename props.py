# Property -> worlds/budgets table used by ./check and by gen_manifest.py
COMPONENTS_SIM = {
    'real_code': ['/repo/code/include/rlbox*.hpp core (rlbox_sandbox, tainted, tainted_volatile, conversions, policy types, app_pointer_map)'],
    'stubs': ['rlbox_sim_sandbox backend (ILP32 guest, offset pointers, function table, slot table, allocator)',
              'guest code (scripted by the plan)', 'fault box (allocator / create / grant / lookup failures)'],
}

WORLDS = ['apptoken', 'mem', 'callback']

PROPS = {
    'C15': dict(
        level='exploration',
        worlds=[dict(world='apptoken', variants=['plain'],
                     quick=dict(count=48000, time_limit=40),
                     thorough=dict(count=4000000, time_limit=600))],
        rule=('one run = one seeded history (<=60 ops) of register / bulk-register / release / lookup(live, released, never issued) on '
              'app_pointer_map<uint8_t> (limit 1..254) or of get_app_pointer owners moved / move-assigned onto empty, live and self / '
              'unregistered / destroyed on a sim sandbox (limit 4095 or 65535), checked op by op against a token->pointer reference map; '
              'non-trivial = at least one reach probe hit (exhaustion, cursor wrap, reuse after release, move onto live owner, ...); '
              'distinct = distinct FNV-1a hashes of the full event log'),
        expect_probes=['token_space_exhausted', 'cursor_wrapped', 'token_reused_after_release', 'move_assign_onto_live_owner',
                       'lookup_of_released_token', 'owner_moved'],
        components=COMPONENTS_SIM,
        assumptions=['uint8_t instantiation of app_pointer_map is representative of the uint32_t one apart from the limit (same template code)',
                     'limit 255 for uint8_t is excluded: the scan loop cannot terminate there by construction of the type, not by the algorithm',
                     'released-token sweep after each step checks the 6 most recently released tokens, not all of them'],
    ),

}

MEM_RULE = ('one run = one seeded plan (<=60 ops) over 1-4 sim-backend sandboxes (region 4 KiB / 64 KiB / 1 MiB, mask or registry flavour): '
            'create (with injected backend failure) / destroy / re-create in any order, allocation (with injected null and straddling results), '
            'pointer-derivation chains (+ - += -= ++ -- [] & * -> fields casts opaque) with operands of 5 integer types as plain, tainted and '
            'in-sandbox tainted_volatile values, loads/stores of pointer cells, struct pointer fields and arrays of pointers, whole-struct copies, '
            'hostile guest writes of arbitrary 32-bit patterns into cells, hostile function results and callback arguments, assign_raw_pointer / '
            'UNSAFE_accept_pointer over 14 address classes, registrations and by-name invocations across incarnations; '
            'non-trivial = at least one fault fired or reach probe hit; distinct = distinct FNV-1a hashes of the event log')
MEM_WORLD = dict(world='mem', variants=['plain'], quick=dict(count=64000, time_limit=60), thorough=dict(count=6000000, time_limit=900))
MEM_ASSUME = ['the sim backend maps every 32-bit representation into its region (offset modulo size), as the 4 GiB reservations of real plug-ins do; '
              'offset 0 shares its representation with null and is exempt from round-trip checks',
              'oracle region table is the simulator\'s own (sim::g_regions), never the backend predicates',
              '&*p and &p[n] on registered-struct pointers do not compile with the unchanged headers (const-correctness of the generated operator&) and are not generated']

PROPS.update({
    'C02': dict(level='exploration', worlds=[MEM_WORLD], rule=MEM_RULE, components=COMPONENTS_SIM,
                expect_probes=['address_in_other_live_sandbox', 'address_in_destroyed_region', 'address_4GiB_alias', 'two_or_more_live_sandboxes'],
                assumptions=MEM_ASSUME + ['only the run-time half of C02 (assign_raw_pointer on tainted and tainted_volatile, UNSAFE_accept_pointer) is decided; every does-not-compile clause is out of reach of this technique']),
    'C03': dict(level='exploration', worlds=[MEM_WORLD], rule=MEM_RULE, components=COMPONENTS_SIM,
                expect_probes=['arith_on_null_pointer', 'field_addr_on_null_pointer', 'operand_in_sandbox_memory', 'F1_hostile_cell_value',
                               'F1_hostile_result', 'F1_hostile_callback_argument', 'F3_sbx_malloc_null', 'F4_sbx_malloc_straddle', 'F8_grant_refused'],
                assumptions=MEM_ASSUME),
    'C04': dict(level='exploration', worlds=[MEM_WORLD], rule=MEM_RULE, components=COMPONENTS_SIM,
                expect_probes=['two_or_more_live_sandboxes', 'struct_copied_through_application', 'registry_consulted_for_live_sandbox', 'sandbox_recreated'],
                assumptions=MEM_ASSUME),
    'C14': dict(level='exploration', worlds=[MEM_WORLD], rule=MEM_RULE, components=COMPONENTS_SIM,
                expect_probes=['create_on_created', 'destroy_on_not_created', 'malloc_outside_window', 'free_outside_window', 'register_outside_window',
                               'unregister_outside_window', 'sandbox_recreated', 'F6_create_fail', 'create_after_failed_create',
                               'registry_consulted_for_destroyed_sandbox', 'old_incarnation_owner_released_with_new_incarnation_alive',
                               'owner_destroyed_after_destroy_sandbox'],
                assumptions=MEM_ASSUME + ['a second create after a failed backend create: the statement is silent, both outcomes are accepted',
                                          'frees/unregistrations "ignored" is judged at the backend boundary: no impl_free / impl_unregister call is made']),
})

CB_RULE = ('one run = one seeded history (<=60 ops) on 1-3 sandboxes of one backend (sim foreign-ABI stub with 2/4/64 callback entries; real noop; real dylib loading '
           'two guest libraries) of register (70-function pool + void pool) / fill to capacity / unregister / destroy owner / move-construct / move-assign onto empty, live, '
           'stale and self / destroy_sandbox with live owners / re-create, interleaved with guest calls of registered entries (1-3 calls each, nested '
           'invoke->callback->invoke chains to depth 4 across sandboxes, hostile and unrepresentable return values, raw guest-chosen entry indices on the stub); '
           'the reference model is the set of live registrations per sandbox incarnation; non-trivial = a fault fired or a reach probe hit; distinct = event-log hashes')
CB_WORLD = dict(world='callback', variants=['plain', 'tls'], quick=dict(count=160000, time_limit=60), thorough=dict(count=8000000, time_limit=900))
CB_COMPONENTS = dict(real_code=COMPONENTS_SIM['real_code'] + ['rlbox_noop_sandbox.hpp', 'rlbox_dylib_sandbox.hpp (dlopen of build/libguest{0,1}.so)'],
                     stubs=COMPONENTS_SIM['stubs'] + ['guest C library sim/guestlib.c (real machine code, plays the sandboxed library for noop/dylib)'])
CB_ASSUME = ['noop/dylib: reachability is judged through public behaviour only (is_unregistered, entry-point values, ability to re-register, what a guest call reaches); '
             'on the stub the backend table is compared with the model directly',
             'a vacant entry is only called on the stub (on noop/dylib it is a null function pointer call)',
             'owners whose sandbox was destroyed keep is_unregistered()==false; the statement only requires that releasing them is harmless',
             'both TLS configurations are built (library thread_local and RLBOX_EMBEDDER_PROVIDES_TLS_STATIC_VARIABLES)']
PROPS.update({
    'C12': dict(level='exploration', worlds=[CB_WORLD, MEM_WORLD], rule=CB_RULE, components=CB_COMPONENTS,
                expect_probes=['nested_invoke_from_callback', 'nested_chain_crosses_sandboxes', 'callback_nesting_depth_3_or_more',
                               'sixty_or_more_simultaneous_registrations', 'F9_unrepresentable_callback_result', 'sandbox_recreated'],
                assumptions=CB_ASSUME),
    'C13': dict(level='exploration', worlds=[CB_WORLD, MEM_WORLD], rule=CB_RULE, components=CB_COMPONENTS,
                expect_probes=['move_assign_onto_live_owner', 'move_assign_involving_stale_owner', 'self_move_assign', 'owner_moved',
                               'owner_released_after_destroy_sandbox', 'F7_capacity_exhausted', 'duplicate_registration_attempted',
                               'guest_called_vacant_or_foreign_entry', 'F12_destroy_sandbox_with_live_owners'],
                assumptions=CB_ASSUME),
})
