# Property -> worlds/budgets table used by ./check and by gen_manifest.py
COMPONENTS_SIM = {
    'real_code': ['/repo/code/include/rlbox*.hpp core (rlbox_sandbox, tainted, tainted_volatile, conversions, policy types, app_pointer_map)'],
    'stubs': ['rlbox_sim_sandbox backend (ILP32 guest, offset pointers, function table, slot table, allocator)',
              'guest code (scripted by the plan)', 'fault box (allocator / create / grant / lookup failures)'],
}

WORLDS = ['apptoken']

PROPS = {
    'C15': dict(
        level='exploration',
        worlds=[dict(world='apptoken', variants=['plain'],
                     quick=dict(count=48000, time_limit=40),
                     thorough=dict(count=4000000, time_limit=600))],
        rule=('one run = one seeded history (<=60 ops) of register / bulk-register / release / lookup(live, released, never issued) on '
              'app_pointer_map<uint8_t> (limit 1..254) or of get_app_pointer owners moved / move-assigned onto empty, live and self / '
              'unregistered / destroyed on a sim sandbox (limit 4095 or 65535), checked op by op against a token->pointer reference map; '
              'non-trivial = at least one reach probe hit (exhaustion, cursor wrap, reuse after release, move onto live owner, ...); '
              'distinct = distinct FNV-1a hashes of the full event log'),
        expect_probes=['token_space_exhausted', 'cursor_wrapped', 'token_reused_after_release', 'move_assign_onto_live_owner',
                       'lookup_of_released_token', 'owner_moved'],
        components=COMPONENTS_SIM,
        assumptions=['uint8_t instantiation of app_pointer_map is representative of the uint32_t one apart from the limit (same template code)',
                     'limit 255 for uint8_t is excluded: the scan loop cannot terminate there by construction of the type, not by the algorithm',
                     'released-token sweep after each step checks the 6 most recently released tokens, not all of them'],
    ),
}
