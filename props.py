# Property -> worlds/budgets table used by ./check and by gen_manifest.py
COMPONENTS_SIM = {
    'real_code': ['/repo/code/include/rlbox*.hpp core (rlbox_sandbox, tainted, tainted_volatile, conversions, policy types, app_pointer_map)'],
    'stubs': ['rlbox_sim_sandbox backend (ILP32 guest, offset pointers, function table, slot table, allocator)',
              'guest code (scripted by the plan)', 'fault box (allocator / create / grant / lookup failures)'],
}

WORLDS = ['apptoken', 'abi', 'mem', 'callback', 'invoke', 'toctou', 'bulk', 'transition', 'threads']

PROPS = {
    'C15': dict(
        level='exploration',
        worlds=[dict(world='apptoken', variants=['plain'],
                     quick=dict(count=48000, time_limit=40),
                     thorough=dict(count=4000000, time_limit=600))],
        rule=('one run = one seeded history (<=60 ops) of register / bulk-register / release / lookup(live, released, never issued) on '
              'app_pointer_map<uint8_t> (limit 1..254) or of get_app_pointer owners moved / move-assigned onto empty, live and self / '
              'unregistered / destroyed on a sim sandbox (limit 4095 or 65535), checked op by op against a token->pointer reference map; '
              'non-trivial = at least one reach probe hit (exhaustion, cursor wrap, reuse after release, move onto live owner, ...); '
              'distinct = distinct FNV-1a hashes of the full event log'),
        expect_probes=['token_space_exhausted', 'cursor_wrapped', 'token_reused_after_release', 'move_assign_onto_live_owner',
                       'lookup_of_released_token', 'owner_moved', 'owner_move_constructed_from_inert_source', 'null_application_pointer_registered'],
        components=COMPONENTS_SIM,
        assumptions=['uint8_t instantiation of app_pointer_map is representative of the uint32_t one apart from the limit (same template code)',
                     'uint8_t tokens with limit 255 (the largest value of the type) are included since repair 17 made the search terminate there',
                     'released-token sweep after each step checks the 6 most recently released tokens, not all of them'],
    ),

}

MEM_RULE = ('one run = one seeded plan (<=60 ops) over 1-4 sim-backend sandboxes (region 4 KiB / 64 KiB / 1 MiB, mask or registry flavour): '
            'create (with injected backend failure) / destroy / re-create in any order, allocation (with injected null and straddling results), '
            'pointer-derivation chains (+ - += -= ++ -- [] & * -> fields casts opaque) with operands of 5 integer types as plain, tainted and '
            'in-sandbox tainted_volatile values, loads/stores of pointer cells, struct pointer fields and arrays of pointers, whole-struct copies, '
            'hostile guest writes of arbitrary 32-bit patterns into cells, hostile function results and callback arguments, assign_raw_pointer / '
            'UNSAFE_accept_pointer over 14 address classes, registrations and by-name invocations across incarnations; '
            'non-trivial = at least one fault fired or reach probe hit; distinct = distinct FNV-1a hashes of the event log')
MEM_WORLD = dict(world='mem', variants=['plain', 'p64', 'pvoid'], quick=dict(count=140000, time_limit=60, variant_share={'plain': 0.5, 'p64': 0.25, 'pvoid': 0.25}),
                 thorough=dict(count=8000000, time_limit=900, variant_share={'plain': 0.5, 'p64': 0.25, 'pvoid': 0.25}))
MEM_ASSUME = ['three builds: 32-bit pointer representation (plain), 64-bit integer representation with 32-bit long (p64) and a representation of C++ pointer type that still is an offset, not the host address (pvoid), so that conversions that depend on the width or on the kind of the representation type are exercised each way',
              'the sim backend maps every 32-bit representation into its region (offset modulo size), as the 4 GiB reservations of real plug-ins do; '
              'offset 0 shares its representation with null and is exempt from round-trip checks',
              'oracle region table is the simulator\'s own (sim::g_regions), never the backend predicates',
              '&*p and &p[n] on registered-struct pointers do not compile with the unchanged headers (const-correctness of the generated operator&) and are not generated']

PROPS.update({
    'C02': dict(level='exploration', worlds=[MEM_WORLD], rule=MEM_RULE, components=COMPONENTS_SIM,
                expect_probes=['address_in_other_live_sandbox', 'address_in_destroyed_region', 'address_4GiB_alias', 'two_or_more_live_sandboxes'],
                assumptions=MEM_ASSUME + ['only the run-time half of C02 (assign_raw_pointer on tainted and tainted_volatile, UNSAFE_accept_pointer) is decided; every does-not-compile clause is out of reach of this technique']),
    'C03': dict(level='exploration', worlds=[MEM_WORLD], rule=MEM_RULE, components=COMPONENTS_SIM,
                expect_probes=['arith_on_null_pointer', 'field_addr_on_null_pointer', 'operand_in_sandbox_memory', 'F1_hostile_cell_value',
                               'F1_hostile_result', 'F1_hostile_callback_argument', 'F3_sbx_malloc_null', 'F4_sbx_malloc_straddle', 'F8_grant_refused'],
                assumptions=MEM_ASSUME),
    'C04': dict(level='exploration', worlds=[MEM_WORLD], rule=MEM_RULE, components=COMPONENTS_SIM,
                expect_probes=['two_or_more_live_sandboxes', 'struct_copied_through_application', 'registry_consulted_for_live_sandbox', 'sandbox_recreated'],
                assumptions=MEM_ASSUME),
    'C14': dict(level='exploration', worlds=[MEM_WORLD], rule=MEM_RULE, components=COMPONENTS_SIM,
                expect_probes=['create_on_created', 'destroy_on_not_created', 'malloc_outside_window', 'free_outside_window', 'register_outside_window',
                               'unregister_outside_window', 'sandbox_recreated', 'F6_create_fail', 'create_after_failed_create',
                               'registry_consulted_for_destroyed_sandbox', 'old_incarnation_owner_released_with_new_incarnation_alive',
                               'owner_destroyed_after_destroy_sandbox'],
                assumptions=MEM_ASSUME + ['a second create after a failed backend create: the statement is silent, both outcomes are accepted',
                                          'frees/unregistrations "ignored" is judged at the backend boundary: no impl_free / impl_unregister call is made']),
})

CB_RULE = ('one run = one seeded history (<=60 ops) on 1-3 sandboxes of one backend (sim foreign-ABI stub with 2/4/64 callback entries; real noop; real dylib loading '
           'two guest libraries) of register (70-function pool + void pool) / fill to capacity / unregister / destroy owner / move-construct / move-assign onto empty, live, '
           'stale and self / destroy_sandbox with live owners / re-create, interleaved with guest calls of registered entries (1-3 calls each, nested '
           'invoke->callback->invoke chains to depth 4 across sandboxes, hostile and unrepresentable return values, raw guest-chosen entry indices on the stub); '
           'the reference model is the set of live registrations per sandbox incarnation; non-trivial = a fault fired or a reach probe hit; distinct = event-log hashes')
CB_WORLD = dict(world='callback', variants=['plain', 'tls'], quick=dict(count=160000, time_limit=60), thorough=dict(count=8000000, time_limit=900))
CB_COMPONENTS = dict(real_code=COMPONENTS_SIM['real_code'] + ['rlbox_noop_sandbox.hpp', 'rlbox_dylib_sandbox.hpp (dlopen of build/libguest{0,1,2,3}.so)'],
                     stubs=COMPONENTS_SIM['stubs'] + ['guest C library sim/guestlib.c (real machine code, plays the sandboxed library for noop/dylib)'])
CB_ASSUME = ['noop/dylib: reachability is judged through public behaviour only (is_unregistered, entry-point values, ability to re-register, what a guest call reaches); '
             'on the stub the backend table is compared with the model directly',
             'a vacant entry is only called on the stub (on noop/dylib it is a null function pointer call)',
             'owners whose sandbox was destroyed keep is_unregistered()==false; the statement only requires that releasing them is harmless',
             'both TLS configurations are built (library thread_local and RLBOX_EMBEDDER_PROVIDES_TLS_STATIC_VARIABLES)']
PROPS.update({
    'C12': dict(level='exploration', worlds=[CB_WORLD, MEM_WORLD], rule=CB_RULE, components=CB_COMPONENTS,
                expect_probes=['nested_invoke_from_callback', 'nested_chain_crosses_sandboxes', 'callback_nesting_depth_3_or_more',
                               'sixty_or_more_simultaneous_registrations', 'F9_unrepresentable_callback_result', 'sandbox_recreated'],
                assumptions=CB_ASSUME),
    'C13': dict(level='exploration', worlds=[CB_WORLD, MEM_WORLD, 'TH_FOR_C13'], rule=CB_RULE + '; in the threads world (C18) a third of the runs also share one sim sandbox between all threads for registration / unregistration of a 3-function pool only, with the model "never two live owners of one function" checked at every accepted registration and "reachable == live owners" at quiescence', components=CB_COMPONENTS,
                expect_probes=['move_assign_onto_live_owner', 'move_assign_involving_stale_owner', 'self_move_assign', 'owner_moved', 'owner_move_constructed_from_inert_source',
                               'owner_released_after_destroy_sandbox', 'F7_capacity_exhausted', 'duplicate_registration_attempted',
                               'guest_called_vacant_or_foreign_entry', 'F12_destroy_sandbox_with_live_owners'],
                assumptions=CB_ASSUME),
})

INV_RULE = ('one run = one seeded history (<=50 ops) over 1-3 sim-backend instances bound to two libraries that export the same names at different table indices, '
            'plus two real dylib instances loading libguest0/1.so and a noop instance: invocations of 10 signatures (7 integer kinds incl. long/unsigned long/size_t, '
            'float/double, enum+bool, data pointers and nullptr, callback + sandbox-function address, by-value struct in and out, void, 12 parameters) with arguments as plain '
            'primitives, tainted, tainted_opaque and mixes, boundary-biased values including ones not representable in the guest type, scripted result bits; interleaved with '
            'get_sandbox_function_address before/after the function was invoked, destroy and re-creation with the other library; oracle = guest-side log (exactly one record, '
            'named function, library of the instance used, reference-converted argument bits or abort before any record) and reference back-conversion of the result; '
            'non-trivial = fault fired or probe hit; distinct = event-log hashes')
INV_WORLD = dict(world='invoke', variants=['plain'], quick=dict(count=160000, time_limit=60), thorough=dict(count=8000000, time_limit=900))
PROPS.update({
    'C11': dict(level='exploration', worlds=[INV_WORLD, MEM_WORLD], rule=INV_RULE, components=CB_COMPONENTS,
                expect_probes=['two_or_more_live_instances', 'instance_recreated', 'function_address_obtained_earlier', 'F9_unrepresentable_argument',
                               'two_dylib_instances_with_different_libraries', 'dylib_invoke'],
                assumptions=['struct arguments are generated with representable fields only: a failing field conversion runs inside a noexcept accessor and ends in std::terminate rather than a catchable abort',
                             'each argument is given in its parameter\'s own type, as the statement says',
                             'the guest functions are host functions with guest-ABI signatures (stub); dylib/noop run a real C library']),
})

# C04 also runs the invoke world: function pointers (null included) as arguments and results with the sandbox explicitly available
PROPS['C04']['worlds'] = [MEM_WORLD, INV_WORLD]
PROPS['C04']['rule'] = MEM_RULE + ('; in the invoke world (see C11) function pointers cross in both directions - address of a sandbox function, null tainted function '
                                   'pointer, nullptr literal in; arbitrary table index or 0 out - against a backend that answers garbage when asked to translate null')
PROPS['C04']['expect_probes'] = PROPS['C04']['expect_probes'] + ['null_function_pointer_passed_to_sandbox', 'null_function_pointer_returned_by_sandbox',
                                                                 'pointers_of_two_sandboxes_compared', 'equal_representations_in_two_sandboxes_compared', 'struct_with_inner_struct_accessed']
# a guest whose int is wider than the application's (every other world's guest ABI is narrower or equal): results and
# callback arguments that no application int can hold must not be truncated
ABI_WORLD = dict(world='abi', variants=['plain', 'wide'], quick=dict(count=60000, time_limit=30, variant_share={'plain': 0.25, 'wide': 0.75}),
                 thorough=dict(count=3000000, time_limit=300, variant_share={'plain': 0.25, 'wide': 0.75}))
PROPS['C11']['worlds'] = PROPS['C11']['worlds'] + [ABI_WORLD]
PROPS['C11']['rule'] = PROPS['C11']['rule'] + ('; world abi: the stub built with a 64-bit guest int (and as a control with the ordinary 32-bit one): int f(int, unsigned) whose guest-side result is '
                                               'any 64-bit value - delivered exactly when an int can hold it, otherwise the invocation aborts')
PROPS['C11']['expect_probes'] = PROPS['C11']['expect_probes'] + ['F9_result_not_representable_in_application_type']
PROPS['C12']['worlds'] = PROPS['C12']['worlds'] + [INV_WORLD, ABI_WORLD]
PROPS['C12']['expect_probes'] = PROPS['C12']['expect_probes'] + ['F9_callback_argument_not_representable_in_application_type', 'callback_with_struct_parameter', 'host_abi_callback_with_non_long_result']
PROPS['C12']['rule'] = PROPS['C12']['rule'] + ('; in the invoke world (see C11) one callback takes char, bool, long long, float, enum, unsigned short, a function pointer and a long '
                                               'and returns unsigned long: the guest forwards what it was given, substitutes a function index (or 0) and a long of its own, '
                                               'and the result is either delivered converted or, when it does not fit the guest type, the call aborts before the guest sees anything')
PROPS['C12']['expect_probes'] = PROPS['C12']['expect_probes'] + ['callback_with_every_scalar_kind']
PROPS['C11']['expect_probes'] = PROPS['C11']['expect_probes'] + ['arguments_passed_straight_from_sandbox_memory']
PROPS['C03']['expect_probes'] = PROPS['C03']['expect_probes'] + ['static_array_indexed_with_narrow_integer_type']
PROPS['C11']['expect_probes'] = PROPS['C11']['expect_probes'] + ['name_buffer_reused_after_lookup']

TOCTOU_RULE = ('one run = one copy_and_verify scenario (24 variants: string with unique_ptr<char[]> / unique_ptr<const char[]> / std::string verifier from a tainted pointer and '
               'from a pointer cell; ranges of char/short/int/long long/double; pointer-to-primitive, pointer cell, fundamental in a cell, registered struct through a pointer and by value, '
               'fixed array field with the verifier taking it by value and by reference, address, buffer address from a tainted pointer and from a cell; '
               'copy_memory_or_deny_access copy path with host malloc failure) x source placement (interior / ending at the last byte of the region with an application canary '
               'page behind it) x 0-3 guest mutations (remove / insert terminator, lengthen, flip element, retarget the pointer cell to a second buffer or to the last bytes of the region, '
               'null the cell, scribble the region) each fired at a chosen k-th access RLBox makes to sandbox memory (trap-MMU: PROT_NONE application view, memfd double mapping, single-step), plus an unconditional scribble of '
               'the whole region inside the verifier and after return; optionally the n-th host allocation made inside the call fails; the quick tier enumerates (variant x placement x len in {1,5,16}) x every access index x every mutation, '
               'and x allocation failure n in {1,2,3}; '
               'non-trivial = at least one mutation fired inside the call; distinct = event-log hashes (include the trap trace R/W@offset)')
TOCTOU_WORLD = dict(world='toctou', variants=['plain', 'asan'],
                    quick=dict(count=16000, time_limit=90, enumerate=True, variant_share={'plain': 0.6, 'asan': 0.4}, enum_share={'plain': 1.0, 'asan': 1.0}),
                    thorough=dict(count=1500000, time_limit=900, enumerate=True, variant_share={'plain': 0.7, 'asan': 0.3}))
PROPS.update({
    'C09': dict(level='fault_enumeration', worlds=[TOCTOU_WORLD], rule=TOCTOU_RULE, components=dict(
                    real_code=COMPONENTS_SIM['real_code'],
                    stubs=COMPONENTS_SIM['stubs'] + ['trap-MMU (mprotect + SIGSEGV + x86 trap flag) deciding when the guest actor writes', 'host malloc wrapper (-Wl,--wrap=malloc)']),
                exhaustive_subspace='(24 variants x 2 placements x lengths {1,5,16}) x (every access index of the fault-free execution x 8 mutations, or failure of host allocation 1..3), single fault per run',
                expect_probes=['fault_free_run', 'source_ends_at_last_byte_of_region', 'F2_remove_terminator', 'F2_insert_terminator', 'F2_lengthen', 'F2_flip_element',
                               'F2_retarget_cell', 'F2_null_cell', 'F2_scribble_region', 'F5_host_malloc_null', 'F2_retarget_cell_to_region_end', 'F5_host_allocation_fails_inside_call'],
                assumptions=['interleaving granularity is one machine instruction that touches sandbox memory (an SSE strlen step or memcpy chunk is one access)',
                             'copy_and_verify_range on long* is excluded (host-width reads at guest stride: a C07 matter, not claimed)',
                             'provenance oracle: a delivered byte must equal the byte some version of a candidate source location held between call entry and verifier entry',
                             'the canary page behind the region ends in a NUL so that a runaway strlen stops inside mapped memory']),
})

BULK_RULE = ('one run = 2-24 bulk operations (memset, memcpy from application memory / from the same or another live sandbox, memcmp, copy_and_verify_range over 5 element types, '
             'copy_and_verify_string with and without terminator, copy_and_verify_buffer_address, unverified_safe_pointer_because, copy_memory_or_grant_access, '
             'copy_memory_or_deny_access) on two live sim sandboxes with start in {null, first/last byte, last 16 bytes, interior} and extent in {0, 1, fits exactly, fits+-1, '
             'region size(+1), 2^32-1, 2^32, 2^61+1, 2^62+2, 2^64-1, random} given as size_t / unsigned / int / tainted operands, application sources inside a red-zoned arena '
             'or straddling from the canary page into the region; faults: grant/deny refused, sandbox allocator null or straddling, host malloc null; the footprint is a byte-wise '
             'diff of both regions, the canary pages around them and the application arena, and in 1/6 of the runs the trap-MMU read/write set of the target region; '
             'expected outcome (must proceed / must abort / either) from the simulator\'s own region table; non-trivial = fault fired or probe hit; distinct = event-log hashes')
BULK_WORLD = dict(world='bulk', variants=['plain', 'nogrant', 'asan', 'wide'], quick=dict(count=120000, time_limit=90, variant_share={'plain': 0.5, 'nogrant': 0.15, 'asan': 0.2, 'wide': 0.15}),
                  thorough=dict(count=4000000, time_limit=900, variant_share={'plain': 0.5, 'nogrant': 0.15, 'asan': 0.2, 'wide': 0.15}))
PROPS.update({
    'C10': dict(level='exploration', worlds=[BULK_WORLD, dict(TOCTOU_WORLD, quick=dict(TOCTOU_WORLD['quick'], count=4000))], rule=BULK_RULE,
                components=dict(real_code=COMPONENTS_SIM['real_code'],
                                stubs=COMPONENTS_SIM['stubs'] + ['trap-MMU read/write set', 'host malloc wrapper (-Wl,--wrap=malloc)', 'AddressSanitizer build for red-zone hits']),
                expect_probes=['source_in_other_live_sandbox', 'application_source_adjacent_to_sandbox', 'unterminated_string_at_end_of_region',
                               'read_set_observed_with_trap_mmu', 'F3_sbx_malloc_null', 'F4_sbx_malloc_straddle', 'F5_host_malloc_null', 'F8_grant_refused', 'F8_deny_refused'],
                assumptions=['empty requests (extent 0): either outcome accepted, nothing may be touched',
                             'mask-flavoured backend: an application-side range that crosses a region-size-aligned block may be refused (backend artefact), accepted either way',
                             'null start of copy_and_verify_range/_string is handed to the verifier as null (documented behaviour): accepted, nothing may be touched',
                             'element types whose guest size differs from the host size (long) are not generated: the range given is ambiguous for them',
                             'libc strlen may scan up to 512 bytes past the terminator inside the region (aligned vector blocks): tolerated in the read-set check']),
})

TR_RULE = ('one run = one tree of nested crossings (invoke -> guest makes 0-3 callback calls -> callback bodies invoke again ..., depth <= 4, 1-2 sandboxes each with its own '
           'transition state, sim or noop backend) with up to two abort positions among: conversion of an invoke argument (value not representable in the guest type), '
           'guest trap before any callback call or at the end, callback body at entry or after its nested crossing, conversion of the callback result; callback bodies may '
           'catch an inner abort and continue, and may change their sandbox\'s transition state mid-crossing; the recorded hook sequence must equal the model\'s bracket word '
           '(an entry that aborted before the guest ran may be announced-and-closed or not announced), the timing vector must hold exactly one record of the right kind and '
           'identity per crossing with a time inside the simulated span; quick tier enumerates 24 tree shapes (depth<=3, width<=2) x 2 backends x 1-2 sandboxes x every single '
           'abort position; builds: hooks only, timing only, both, and an application that defines only the IN or only the OUT notification (the recorded sequence must be the full word with the other kind left out); non-trivial = an abort fired or the state changed inside a crossing; distinct = event-log hashes')
TR_WORLD = dict(world='transition', variants=['hooks', 'timing', 'both', 'inonly', 'outonly', 'wide'], quick=dict(count=200000, time_limit=60, enumerate=True),
                thorough=dict(count=9000000, time_limit=900, enumerate=True))
PROPS.update({
    'C19': dict(level='fault_enumeration', worlds=[TR_WORLD], rule=TR_RULE,
                components=dict(real_code=CB_COMPONENTS['real_code'][:2],
                                stubs=COMPONENTS_SIM['stubs'] + ['simulated clock (rlbox::high_resolution_clock shadow: every reading is a seeded increment)',
                                                                 'hook macros RLBOX_TRANSITION_ACTION_IN/OUT recording into the history']),
                exhaustive_subspace='24 tree shapes (depth<=3, width<=2) x {sim, noop} x {1,2} sandboxes x every single abort position (0..28), per build',
                expect_probes=['F9_abort_at_argument_conversion', 'F9_abort_in_callback_body', 'F9_guest_trap', 'F9_unrepresentable_callback_result',
                               'inner_abort_caught_by_outer_callback', 'transition_state_changed_inside_callback', 'transition_state_installed_before_create',
                               'transition_state_installed_in_earlier_incarnation'],
                assumptions=['hooks themselves never abort (the OUT / closing IN notifications run inside scope guards, an abort there would terminate the process)',
                             'an invocation that aborts during argument conversion, before sandboxed code is entered: announced-and-closed or silent are both accepted, an unmatched notification never is',
                             'timing values are compared exactly with the difference of the two simulated clock readings that delimit the crossing whenever the model can tell which readings those are, and for range otherwise']),
})

TH_RULE = ('one run = 2-8 real threads (quick: 2-5), each executing its own seeded plan over its own 1-2 sandbox objects of a backend type shared with other threads '
           '(sim stub in registry flavour: every example-based pointer translation walks the shared live-sandbox list under the shared lock; noop: per-thread current-sandbox '
           'record), operations create / destroy / re-create / pointer store+load through a cell / register / unregister / invoke with 1-3 callback calls and a nested invoke '
           'on the thread\'s second sandbox / invoke by name / malloc+free; threads 0-3 additionally own an instance of the real dylib plug-in, each on its own copy of the guest '
           'library (four files exporting the same symbols), whose functions reach the library\'s own exported counter and functions through GOT/PLT; one seeded scheduler decides which thread runs at every yield point (acquire and release of every '
           'RLBox shared lock through RLBOX_USE_CUSTOM_SHARED_LOCK, every backend entry point incl. the membership predicate called under the list lock, guest code, callback '
           'bodies, between operations) with uniform / sticky / priority-with-change-points policies; the lock model blocks writers behind readers and vice versa; '
           'oracles: per-thread single-threaded expectations, no deadlock (no runnable thread), progress within 200000 decisions, and in the ThreadSanitizer build zero race '
           'reports while the hand-off itself is invisible to TSan; non-trivial = at least one context switch; distinct = event-log hashes (include the schedule hash)')
TH_WORLD = dict(world='threads', variants=['plain', 'tls', 'tsan'], quick=dict(count=80000, time_limit=90, variant_share={'plain': 0.4, 'tls': 0.25, 'tsan': 0.35}),
                thorough=dict(count=3000000, time_limit=900, variant_share={'plain': 0.35, 'tls': 0.2, 'tsan': 0.45}))
PROPS.update({
    'C18': dict(level='exploration', worlds=[TH_WORLD], rule=TH_RULE,
                components=dict(real_code=CB_COMPONENTS['real_code'][:2] + ['rlbox_dylib_sandbox.hpp (one instance per thread for threads 0-3, dlopen of build/libguest{0,1,2,3}.so)'],
                                stubs=COMPONENTS_SIM['stubs'] + ['guest C library sim/guestlib.c (real machine code, four copies)', 'seeded scheduler over real threads (sim/sched.cpp, raw futex hand-off compiled without TSan)',
                                                                 'lock type plugged in through RLBOX_USE_CUSTOM_SHARED_LOCK (model in the scheduler + a real shared_timed_mutex locked after the grant so that TSan sees RLBox\'s own lock edges)']),
                expect_probes=['thread_waited_for_rlbox_lock', 'thread_descheduled_while_holding_rlbox_lock', 'nested_invoke_on_second_sandbox_of_thread', 'dylib_instance_per_thread', 'other_sandbox_destroyed_inside_a_callback'],
                assumptions=['threads never share one sandbox instance (RLBOX_SINGLE_THREADED_INVOCATIONS is mandatory and the property only promises distinct instances on distinct threads)',
                             'thread switches happen only at yield points; races between yield points are left to ThreadSanitizer\'s happens-before analysis, which does not need the accesses to overlap in time',
                             'std::mutex callback_lock has no yield point inside its critical sections, so a parked thread never holds it']),
})

# C13 also uses the threads world (shared-sandbox registration scenario); patched in here because TH_WORLD is defined later
for _w in PROPS['C13']['worlds']:
    pass
PROPS['C13']['worlds'] = [w for w in PROPS['C13']['worlds'] if w != 'TH_FOR_C13'] + [dict(TH_WORLD, quick=dict(TH_WORLD['quick'], count=30000))]
PROPS['C13']['expect_probes'] = PROPS['C13']['expect_probes'] + ['registration_on_shared_sandbox', 'shared_sandbox_registrations_from_several_threads', 'registration_on_shared_noop_sandbox',
                                                                 'registration_made_while_an_exception_unwinds', 'registration_made_inside_a_callback', 'owner_released_inside_a_callback']
PROPS['C13']['assumptions'] = PROPS['C13']['assumptions'] + ['same-instance concurrency is exercised for callback registration/unregistration only (the part of a sandbox object RLBox guards with callback_lock); everything else is single-threaded per instance as RLBOX_SINGLE_THREADED_INVOCATIONS demands']

# C12 also uses the transition world: aborts unwinding through nested crossings (and caught by an outer callback) are generated there,
# and every callback body checks the sandbox reference it receives
PROPS['C12']['worlds'] = PROPS['C12']['worlds'] + [dict(world='transition', variants=['both'], quick=dict(count=40000, time_limit=60, enumerate=True),
                                                         thorough=dict(count=2000000, time_limit=600, enumerate=True))]
PROPS['C12']['expect_probes'] = PROPS['C12']['expect_probes'] + ['inner_abort_caught_by_outer_callback']

# C09 also runs the abi world (defined above): an int cell rewritten between the library's reads
PROPS['C09']['worlds'] = PROPS['C09']['worlds'] + [ABI_WORLD]
PROPS['C09']['rule'] = PROPS['C09']['rule'] + ('; world abi (guest int wider than the application\'s): copy_and_verify on an int that lives in sandbox memory while the guest rewrites the cell at the '
                                               'library\'s k-th access to it - what is delivered was in the cell at some moment, or the read aborts')
PROPS['C09']['expect_probes'] = PROPS['C09']['expect_probes'] + ['F2_int_cell_rewritten_between_accesses']
# round 8 of seeded changes
PROPS['C19']['expect_probes'] = PROPS['C19']['expect_probes'] + ['F9_unrepresentable_callback_argument']
PROPS['C10']['expect_probes'] = PROPS['C10']['expect_probes'] + ['memcmp_count_read_from_sandbox_memory', 'F2_count_cell_rewritten_during_memcmp']
PROPS['C04']['expect_probes'] = PROPS['C04']['expect_probes'] + ['pointer_cell_watched_during_store']
PROPS['C14']['expect_probes'] = PROPS['C14']['expect_probes'] + ['registry_asked_about_last_byte_of_region', 'backend_reports_total_memory_as_mask']
PROPS['C10']['expect_probes'] = PROPS['C10']['expect_probes'] + ['range_fits_in_application_width_only']
PROPS['C19']['expect_probes'] = PROPS['C19']['expect_probes'] + ['F10_function_not_exported_resolves_to_null']
PROPS['C15']['expect_probes'] = PROPS['C15']['expect_probes'] + ['backend_location_is_not_address_of_representation_0']
PROPS['C14']['expect_probes'] = PROPS['C14']['expect_probes'] + ['zero_elements_requested_outside_window']
PROPS['C12']['expect_probes'] = PROPS['C12']['expect_probes'] + ['callback_with_enum_wider_than_int']
PROPS['C18']['expect_probes'] = PROPS['C18']['expect_probes'] + ['callback_entry_point_stored_in_sandbox_memory']
PROPS['C10']['expect_probes'] = PROPS['C10']['expect_probes'] + ['grant_of_buffer_in_other_live_sandbox']
PROPS['C13']['expect_probes'] = PROPS['C13']['expect_probes'] + ['running_callback_owner_moved_inside_its_body']
PROPS['C14']['expect_probes'] = PROPS['C14']['expect_probes'] + ['F4_sbx_malloc_block_ends_at_last_byte']
PROPS['C19']['expect_probes'] = PROPS['C19']['expect_probes'] + ['F14_clock_leaps_forward_by_seconds']
PROPS['C15']['expect_probes'] = PROPS['C15']['expect_probes'] + ['owner_destroyed_by_exception_unwinding']
PROPS['C11']['expect_probes'] = PROPS['C11']['expect_probes'] + ['pointer_argument_aligned_for_the_guest_only', 'dylib_lookup_of_name_known_to_the_process_only']
PROPS['C03']['expect_probes'] = PROPS['C03']['expect_probes'] + ['F2_integer_operand_rewritten_between_accesses']
PROPS['C19']['expect_probes'] = PROPS['C19']['expect_probes'] + ['timing_records_read_after_destroy']
PROPS['C12']['expect_probes'] = PROPS['C12']['expect_probes'] + ['another_sandbox_created_and_destroyed_inside_a_callback']
PROPS['C12']['expect_probes'] = PROPS['C12']['expect_probes'] + ['callback_returns_struct_with_integer_arrays']
PROPS['C03']['expect_probes'] = PROPS['C03']['expect_probes'] + ['pointer_to_function_pointer_loaded_from_sandbox_memory']
