#!/usr/bin/env python3
"""Cross-process determinism self-test: every world binary executes the same run-seeds in
(a) one process and (b) several processes with another partitioning (and, for ASLR, a different
environment size); the per-run event-log hashes must be identical.
usage: selftest_determinism.py [count-per-world] [seed]"""
import os, subprocess, sys, tempfile
HERE = os.path.dirname(os.path.abspath(__file__))
os.chdir(HERE)
N = int(sys.argv[1]) if len(sys.argv) > 1 else 4000
SEED = sys.argv[2] if len(sys.argv) > 2 else '424242'
BINS = ['apptoken', 'abi', 'abi.wide', 'mem', 'mem.p64', 'mem.pvoid', 'callback', 'callback.tls', 'invoke', 'toctou', 'toctou.asan', 'bulk', 'bulk.asan', 'bulk.nogrant', 'bulk.wide',
        'transition.hooks', 'transition.timing', 'transition.both', 'transition.inonly', 'transition.outonly', 'transition.wide', 'threads', 'threads.tls', 'threads.tsan']
subprocess.run(['make', '-s', '-j16', 'all'], check=True)
bad = 0
for b in BINS:
    n = N // 8 if ('asan' in b or 'tsan' in b or 'toctou' in b) else N
    with tempfile.TemporaryDirectory() as d:
        a = os.path.join(d, 'a')
        subprocess.run(['build/' + b, '--seed', SEED, '--count', str(n), '--dump-hashes', a, '--det-every', '0'], stdout=subprocess.DEVNULL)
        ha = dict((l.split()[1], l.split()[2]) for l in open(a))
        hb = {}
        parts = 5
        per = (n + parts - 1) // parts
        procs = []
        for k in range(parts):
            f = os.path.join(d, 'b%d' % k)
            env = dict(os.environ, PADDING='x' * (997 * (k + 1)))
            procs.append((f, subprocess.Popen(['build/' + b, '--seed', SEED, '--start', str(k * per), '--count', str(min(per, n - k * per)),
                                              '--dump-hashes', f, '--det-every', '0'], stdout=subprocess.DEVNULL, env=env)))
        for f, p in procs:
            p.wait()
            for l in open(f):
                hb[l.split()[1]] = l.split()[2]
        diff = [k for k in ha if ha[k] != hb.get(k)]
        print('%-18s %6d runs, %d differ%s' % (b, len(ha), len(diff), (' e.g. index ' + diff[0]) if diff else ''))
        bad += len(diff)
sys.exit(1 if bad else 0)
