// Registered struct shared by several worlds (application layout vs ILP32 guest layout).
#pragma once
struct SimNode
{
  long tag;
  SimNode* next;
  int* data;
  char name[8];
  int* ptrs[3];
  unsigned long long big;
};
#ifndef SIM_PTR_T
#  define SIM_PTR_T uint32_t
#endif
struct GNode // guest image (32-bit long; pointer representation SIM_PTR_T)
{
  int32_t tag;
  SIM_PTR_T next;
  SIM_PTR_T data;
  char name[8];
  SIM_PTR_T ptrs[3];
  uint64_t big;
};
static_assert(sizeof(GNode) == (sizeof(SIM_PTR_T) == 4 ? 40 : 64));

struct SimGrid // a nested fixed array (same layout in both ABIs)
{
  int m[2][4];
  short tail;
};

struct SimInner
{
  int a;
  char* p;
};
struct SimOuter // a struct with a struct-typed field (conversions recurse), a pointer to a struct and a trailing long
{
  long x;
  SimInner in;
  SimNode* node;
  long y;
};
struct GInner
{
  int32_t a;
  SIM_PTR_T p;
};
struct GOuter
{
  int32_t x;
  GInner in;
  SIM_PTR_T node;
  int32_t y;
};
static_assert(sizeof(GOuter) == (sizeof(SIM_PTR_T) == 4 ? 20 : 40));

struct SimTable // long fixed arrays: indices of narrow integer types can be negative or wrap before they reach the extent
{
  int tbl[300];
};
struct SimBig
{
  char c[66000];
};

#if defined(__clang__)
#  pragma clang diagnostic ignored "-Wgnu-zero-variadic-macro-arguments"
#endif
#define sandbox_fields_reflection_simlib_class_SimNode(f, g, ...)              \
  f(long, tag, FIELD_NORMAL, ##__VA_ARGS__) g()                                \
  f(SimNode*, next, FIELD_NORMAL, ##__VA_ARGS__) g()                           \
  f(int*, data, FIELD_NORMAL, ##__VA_ARGS__) g()                               \
  f(char[8], name, FIELD_NORMAL, ##__VA_ARGS__) g()                            \
  f(int* [3], ptrs, FIELD_NORMAL, ##__VA_ARGS__) g()                           \
  f(unsigned long long, big, FIELD_NORMAL, ##__VA_ARGS__) g()
#define sandbox_fields_reflection_simlib_class_SimGrid(f, g, ...)              \
  f(int[2][4], m, FIELD_NORMAL, ##__VA_ARGS__) g()                             \
  f(short, tail, FIELD_NORMAL, ##__VA_ARGS__) g()
#define sandbox_fields_reflection_simlib_class_SimInner(f, g, ...)             \
  f(int, a, FIELD_NORMAL, ##__VA_ARGS__) g()                                   \
  f(char*, p, FIELD_NORMAL, ##__VA_ARGS__) g()
#define sandbox_fields_reflection_simlib_class_SimOuter(f, g, ...)             \
  f(long, x, FIELD_NORMAL, ##__VA_ARGS__) g()                                  \
  f(SimInner, in, FIELD_NORMAL, ##__VA_ARGS__) g()                             \
  f(SimNode*, node, FIELD_NORMAL, ##__VA_ARGS__) g()                           \
  f(long, y, FIELD_NORMAL, ##__VA_ARGS__) g()
#define sandbox_fields_reflection_simlib_class_SimTable(f, g, ...)             \
  f(int[300], tbl, FIELD_NORMAL, ##__VA_ARGS__) g()
#define sandbox_fields_reflection_simlib_class_SimBig(f, g, ...)               \
  f(char[66000], c, FIELD_NORMAL, ##__VA_ARGS__) g()
#define sandbox_fields_reflection_simlib_allClasses(f, ...)                    \
  f(SimNode, simlib, ##__VA_ARGS__)                                            \
  f(SimGrid, simlib, ##__VA_ARGS__)                                            \
  f(SimInner, simlib, ##__VA_ARGS__)                                           \
  f(SimOuter, simlib, ##__VA_ARGS__)                                           \
  f(SimTable, simlib, ##__VA_ARGS__)                                           \
  f(SimBig, simlib, ##__VA_ARGS__)
rlbox_load_structs_from_library(simlib);

