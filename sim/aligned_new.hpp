// Makes every C++ heap allocation of the translation unit's program 64-byte aligned.
// Why: in trap-MMU worlds the sequence of accesses libc's memcpy/memmove makes to the
// (trapped) source depends on the alignment of the *destination* buffer, which RLBox
// allocates with new / std::string.  With the default allocator that alignment depends
// on the heap's history, so the same plan could trap at different offsets when executed
// twice in one process (found by the determinism re-check in the thorough tier).
#pragma once
#include "allocfault.hpp"
#include <cstdlib>
#include <new>

// The last allocations (requested size / rounded size): the padding behind the requested bytes keeps its fill pattern
// unless somebody writes behind the block - worlds look a delivered buffer up here to learn how large it really is.
struct SimAllocRec
{
  void* p;
  std::size_t n, r;
};
inline SimAllocRec g_sim_allocs[256];
inline unsigned g_sim_alloc_pos = 0;
inline void sim_alloc_note(void* p, std::size_t n, std::size_t r)
{
  g_sim_allocs[g_sim_alloc_pos++ % 256] = SimAllocRec{ p, n, r };
}
inline const SimAllocRec* sim_alloc_find(const void* p)
{
  for (unsigned k = 0; k < 256; k++) {
    const SimAllocRec& a = g_sim_allocs[(g_sim_alloc_pos + 255 - k) % 256];
    if (a.p == p)
      return &a;
  }
  return nullptr;
}

inline void* sim_aligned_alloc_nothrow(std::size_t n)
{
  if (sim::host_alloc_should_fail())
    return nullptr;
  std::size_t align = n >= 192 ? 4096 : 64;
  std::size_t r = (n + align - 1) & ~(align - 1);
  if (r == 0)
    r = align;
  if (r < n || r > ((std::size_t)1 << 28))
    return nullptr; // the simulated host has no room for requests above 256 MiB
  void* p = std::aligned_alloc(align, r);
  if (p) {
    __builtin_memset(p, 0xA5, r);
    sim_alloc_note(p, n, r);
  }
  return p;
}
inline void* sim_aligned_alloc(std::size_t n)
{
  if (sim::host_alloc_should_fail())
    throw std::bad_alloc();
  // glibc's memmove also picks its copy direction for blocks > 8 vectors from the page offset of
  // (destination - source) ("4k aliasing"), so buffers that can be the target of such a copy get a
  // fixed page offset as well
  std::size_t align = n >= 192 ? 4096 : 64;
  std::size_t r = (n + align - 1) & ~(align - 1);
  if (r == 0)
    r = align;
  if (r < n || r > ((std::size_t)1 << 28))
    throw std::bad_alloc();
  void* p = std::aligned_alloc(align, r);
  if (!p)
    throw std::bad_alloc();
  __builtin_memset(p, 0xA5, r); // whatever reads a fresh block (or its padding) sees the same bytes in every execution
  sim_alloc_note(p, n, r);
  return p;
}
void* operator new(std::size_t n)
{
  return sim_aligned_alloc(n);
}
void* operator new[](std::size_t n)
{
  return sim_aligned_alloc(n);
}
void* operator new(std::size_t n, const std::nothrow_t&) noexcept
{
  return sim_aligned_alloc_nothrow(n);
}
void* operator new[](std::size_t n, const std::nothrow_t&) noexcept
{
  return sim_aligned_alloc_nothrow(n);
}
// a block that is given back is overwritten first: whoever still reads it (a name kept by pointer, a reference to a
// container element) sees the same bytes in every execution, and not the old content
#include <malloc.h>
inline void sim_poisoning_free(void* p) noexcept
{
  if (p) {
    __builtin_memset(p, 0xDD, malloc_usable_size(p));
    asm volatile("" : : "r"(p) : "memory"); // (a store into a block that is about to be freed is otherwise optimised away)
  }
  std::free(p);
}
void operator delete(void* p) noexcept
{
  sim_poisoning_free(p);
}
void operator delete[](void* p) noexcept
{
  sim_poisoning_free(p);
}
void operator delete(void* p, std::size_t) noexcept
{
  sim_poisoning_free(p);
}
void operator delete[](void* p, std::size_t) noexcept
{
  sim_poisoning_free(p);
}
