// See sched.hpp.  Compile WITHOUT -fsanitize=thread.
#include "sched.hpp"
#include <atomic>
#include <climits>
#include <cstdio>
#include <cstdlib>
#include <linux/futex.h>
#include <sys/syscall.h>
#include <unistd.h>

namespace simsched {

namespace {
constexpr int MAXT = 32;
struct T
{
  std::atomic<int> go{ 0 };
  int state = 0; // 0 not started, 1 runnable (parked), 2 running, 3 blocked on lock, 4 done
  LockModel* waiting = nullptr;
  bool want_shared = false;
  int held = 0;
  int prio = 0;
};
T th[MAXT];
int N = 0;
int bias = 0;
uint64_t rng_s[4];
uint64_t max_yields = 0;
std::atomic<int> parked{ 0 };
std::atomic<int> main_go{ 0 };
int active = -1;
int done_count = 0;
Result res;
uint64_t change_points[4];
thread_local int my_tid = -1;

long futex(std::atomic<int>* addr, int op, int val)
{
  return syscall(SYS_futex, (int*)addr, op, val, nullptr, nullptr, 0);
}
void wait_go(std::atomic<int>& w)
{
  for (;;) {
    int v = w.load(std::memory_order_acquire);
    if (v == 1) {
      w.store(0, std::memory_order_relaxed);
      return;
    }
    futex(&w, FUTEX_WAIT_PRIVATE, 0);
  }
}
void wake(std::atomic<int>& w)
{
  w.store(1, std::memory_order_release);
  futex(&w, FUTEX_WAKE_PRIVATE, 1);
}
uint64_t rotl(uint64_t x, int k)
{
  return (x << k) | (x >> (64 - k));
}
uint64_t rnd()
{
  uint64_t r = rotl(rng_s[1] * 5, 7) * 9, t = rng_s[1] << 17;
  rng_s[2] ^= rng_s[0];
  rng_s[3] ^= rng_s[1];
  rng_s[1] ^= rng_s[2];
  rng_s[0] ^= rng_s[3];
  rng_s[2] ^= t;
  rng_s[3] = rotl(rng_s[3], 45);
  return r;
}
bool available(LockModel* l, bool shared, int tid)
{
  (void)tid;
  if (shared)
    return l->writer < 0;
  return l->writer < 0 && l->readers == 0;
}
bool can_run(int t, int self)
{
  if (t == self)
    return th[t].state == 2 || th[t].state == 1;
  if (th[t].state == 1)
    return true;
  if (th[t].state == 3)
    return available(th[t].waiting, th[t].want_shared, t);
  return false;
}
// choose the next thread to run among runnable ones; self = yielding thread (-1 when it cannot continue)
int choose(int self)
{
  int cand[MAXT], n = 0;
  for (int t = 0; t < N; t++)
    if (can_run(t, self))
      cand[n++] = t;
  if (n == 0)
    return -1;
  res.decisions++;
  int pick;
  if (max_yields && res.decisions > max_yields) {
    res.yield_budget_exceeded = true;
    pick = self >= 0 ? self : cand[0]; // run to completion
  } else if (bias == 1 && self >= 0 && (rnd() % 8) != 0) {
    rnd();
    pick = self;
  } else if (bias == 2) {
    for (auto cp : change_points)
      if (cp == res.decisions && self >= 0)
        th[self].prio = -(int)res.decisions; // demote the running thread
    pick = cand[0];
    for (int i = 1; i < n; i++)
      if (th[cand[i]].prio > th[pick].prio)
        pick = cand[i];
    rnd();
  } else {
    pick = cand[rnd() % (uint64_t)n];
  }
  res.schedule_hash = (res.schedule_hash ^ (uint64_t)(pick + 1)) * 1099511628211ULL;
  return pick;
}
[[noreturn]] void deadlock()
{
  const char msg[] = "\nSCHED-DEADLOCK no runnable thread\n";
  (void)!write(1, msg, sizeof msg - 1);
  _exit(73);
}
void switch_to(int next, int self)
{
  // self keeps its state (1 runnable / 3 blocked / 4 done) set by the caller
  if (next == self)
    return;
  res.context_switches++;
  if (self >= 0 && th[self].held > 0 && th[self].state != 4)
    res.overlaps_list_lock++;
  active = next;
  th[next].state = 2;
  wake(th[next].go);
  if (self >= 0 && th[self].state != 4)
    wait_go(th[self].go);
}
} // namespace

void mutex_models_reset();
void init(uint64_t seed, int nthreads, int b, uint64_t maxy)
{
  mutex_models_reset(); // (addresses of an earlier run's mutexes mean nothing in this one)
  N = nthreads > MAXT ? MAXT : nthreads;
  bias = b;
  max_yields = maxy;
  uint64_t x = seed;
  for (auto& v : rng_s) {
    x += 0x9e3779b97f4a7c15ULL;
    uint64_t z = x;
    z = (z ^ (z >> 30)) * 0xbf58476d1ce4e5b9ULL;
    z = (z ^ (z >> 27)) * 0x94d049bb133111ebULL;
    v = z ^ (z >> 31);
  }
  for (int t = 0; t < MAXT; t++) {
    th[t].go.store(0);
    th[t].state = 0;
    th[t].waiting = nullptr;
    th[t].held = 0;
    th[t].prio = (int)(rnd() % 1000);
  }
  for (auto& cp : change_points)
    cp = 1 + rnd() % 200;
  parked.store(0);
  main_go.store(0);
  active = -1;
  done_count = 0;
  res = Result();
  res.schedule_hash = 1469598103934665603ULL;
}

namespace {
struct MutexModel
{
  const void* key;
  LockModel model;
};
MutexModel mutex_models[512];
LockModel* model_of(const void* m)
{
  unsigned long h = ((unsigned long)m >> 3) % 512;
  for (unsigned k = 0; k < 512; k++) {
    MutexModel& e = mutex_models[(h + k) % 512];
    if (e.key == m)
      return &e.model;
    if (e.key == nullptr) {
      e.key = m;
      return &e.model;
    }
  }
  return nullptr;
}
}
void mutex_models_reset()
{
  for (auto& e : mutex_models)
    e = MutexModel{ nullptr, LockModel() };
}
void mutex_acquire(const void* key)
{
  if (LockModel* l = model_of(key))
    lock_acquire(l, false);
}
void mutex_release(const void* key)
{
  if (LockModel* l = model_of(key))
    lock_release(l, false);
}

int current_tid()
{
  return my_tid;
}

void thread_begin(int tid)
{
  my_tid = tid;
  th[tid].state = 1;
  parked.fetch_add(1, std::memory_order_release);
  futex(&parked, FUTEX_WAKE_PRIVATE, INT_MAX);
  wait_go(th[tid].go);
}

void yield(const char*)
{
  int self = my_tid;
  if (self < 0 || active != self)
    return; // not under the scheduler (main thread, or before init)
  th[self].state = 1;
  int next = choose(self);
  if (next < 0)
    deadlock();
  if (next == self) {
    th[self].state = 2;
    return;
  }
  switch_to(next, self);
}

void lock_acquire(LockModel* l, bool shared)
{
  int self = my_tid;
  if (self < 0 || active != self) {
    if (shared)
      l->readers++;
    else
      l->writer = 99;
    return;
  }
  yield("lock");
  bool waited = false;
  while (!available(l, shared, self)) {
    if (!waited) {
      res.lock_waits++;
      waited = true;
    }
    th[self].state = 3;
    th[self].waiting = l;
    th[self].want_shared = shared;
    int next = choose(-1);
    if (next < 0)
      deadlock();
    if (next == self) {
      th[self].state = 2;
      continue;
    }
    switch_to(next, self);
  }
  th[self].state = 2;
  th[self].waiting = nullptr;
  if (shared)
    l->readers++;
  else
    l->writer = self;
  th[self].held++;
}

void lock_release(LockModel* l, bool shared)
{
  int self = my_tid;
  if (shared)
    l->readers--;
  else
    l->writer = -1;
  if (self < 0 || active != self)
    return;
  th[self].held--;
  yield("unlock");
}

void thread_end(int tid)
{
  th[tid].state = 4;
  done_count++;
  if (done_count == N) {
    active = -1;
    wake(main_go);
    return;
  }
  int next = choose(-1);
  if (next < 0)
    deadlock();
  switch_to(next, tid);
}

void run_all()
{
  for (;;) {
    int p = parked.load(std::memory_order_acquire);
    if (p >= N)
      break;
    futex(&parked, FUTEX_WAIT_PRIVATE, p);
  }
  if (N == 0)
    return;
  int first = choose(-1);
  if (first < 0)
    deadlock();
  active = first;
  th[first].state = 2;
  wake(th[first].go);
  wait_go(main_go);
}

static int shared_counters[64];
int shared_add(int idx, int delta)
{
  shared_counters[idx & 63] += delta;
  return shared_counters[idx & 63];
}
void shared_reset()
{
  for (auto& c : shared_counters)
    c = 0;
}

Result result()
{
  return res;
}

} // namespace simsched
