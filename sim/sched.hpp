// Seeded serialising scheduler over real threads.  The implementation
// (sched.cpp) is compiled WITHOUT -fsanitize=thread and uses only raw futex
// system calls and lock-prefixed atomics, so ThreadSanitizer sees none of the
// hand-off as synchronisation: the only happens-before edges it observes are
// the ones created by the code under test (and thread create/join).
#pragma once
#include <cstdint>

namespace simsched {

struct LockModel
{
  int readers = 0;
  int writer = -1; // tid holding it exclusively, -1 none
};

void init(uint64_t seed, int nthreads, int bias /*0 uniform 1 sticky 2 priority*/, uint64_t max_yields);
void thread_begin(int tid); // parks until first scheduled
void thread_end(int tid); // marks finished and hands the token on
void yield(const char* where); // current thread offers the token
void lock_acquire(LockModel* l, bool shared); // yield point; blocks (in the model) until available
void lock_release(LockModel* l, bool shared); // yield point
// plain mutexes of the code under test (identified by address): same model, kept inside the scheduler
void mutex_acquire(const void* key);
void mutex_release(const void* key);
void run_all(); // called by the main thread after creating the threads: waits until all parked, then schedules until all ended
int current_tid();
// small shared scratch counters for reference models that several threads update (kept out of TSan's sight,
// like the rest of the scheduler: the threads are serialised, the counters are not part of the code under test)
int shared_add(int idx, int delta);
void shared_reset();

struct Result
{
  bool deadlock;
  bool yield_budget_exceeded;
  uint64_t decisions;
  uint64_t schedule_hash;
  uint64_t context_switches;
  uint64_t lock_waits; // times a thread had to wait for a lock (real contention in the model)
  uint64_t overlaps_list_lock; // a thread was descheduled while holding a lock
};
Result result();

} // namespace simsched
