// Common prologue for worlds that use the sim backend.
#pragma once
#ifndef RLBOX_USE_EXCEPTIONS
#  define RLBOX_USE_EXCEPTIONS
#endif
#ifndef RLBOX_SINGLE_THREADED_INVOCATIONS
#  define RLBOX_SINGLE_THREADED_INVOCATIONS
#endif
#include <csignal>
#include <fcntl.h>
#include <new>
#include <stdexcept>

#include "rlbox.hpp"

#include "rlbox_sim_sandbox.hpp"

namespace sim {

enum Outcome
{
  OK = 0,
  ABORT = 1, // RLBox dynamic_check failed (surfaced as exception)
  TRAP = 2, // guest trapped
  ALLOCFAIL = 3 // host allocation failed (bad_alloc / length_error)
};
inline const char* oname(Outcome o)
{
  return o == OK ? "ok" : o == ABORT ? "abort" : o == TRAP ? "trap" : "allocfail";
}

inline thread_local std::string g_last_abort_msg;

// Locals that the library leaves uninitialised (and a defect then hands over) would otherwise hold whatever earlier
// calls left on the stack, which differs between a worker and the fresh replay process: give them a fixed content.
__attribute__((noinline)) inline void stack_poison()
{
  volatile char area[16384];
  memset((void*)area, 0xA5, sizeof area);
  asm volatile("" ::: "memory");
}

template<typename F>
inline Outcome attempt(F&& f)
{
  stack_poison();
  try {
    f();
    return OK;
  } catch (const std::runtime_error& e) {
    AllocPause nofail; // the handlers are harness code: an armed host-allocation fault must not hit them
    g_last_abort_msg = e.what();
    return ABORT;
  } catch (const GuestTrap& t) {
    AllocPause nofail;
    g_last_abort_msg = t.why;
    return TRAP;
  } catch (const std::bad_alloc& e) {
    AllocPause nofail;
    g_last_abort_msg = e.what();
    return ALLOCFAIL;
  } catch (const std::length_error& e) {
    AllocPause nofail;
    g_last_abort_msg = e.what();
    return ALLOCFAIL;
  }
}

// Crash reporting: a worker that dies announces where it was.
inline void crash_record_out(int sig)
{
  char buf[256];
  int n = snprintf(buf,
                   sizeof buf,
                   "\nDIED signal=%d phase=%d index=%llu runseed=%llu\n",
                   sig,
                   g_progress.phase,
                   (unsigned long long)g_progress.index,
                   (unsigned long long)g_progress.runseed);
  if (n > 0)
    (void)!write(1, buf, (size_t)n);
  if (g_crash_len && g_crash_path[0]) {
    int fd = open(g_crash_path, O_CREAT | O_WRONLY | O_TRUNC, 0644);
    if (fd >= 0) {
      size_t off = 0;
      while (off < g_crash_len) {
        ssize_t w = write(fd, g_crash_buf + off, g_crash_len - off);
        if (w <= 0)
          break;
        off += (size_t)w;
      }
      close(fd);
      (void)!write(1, "CRASHPLAN ", 10);
      (void)!write(1, g_crash_path, strlen(g_crash_path));
      (void)!write(1, "\n", 1);
    }
  }
}
inline void crash_handler(int sig)
{
  crash_record_out(sig);
  _exit(70 + (sig == SIGSEGV ? 1 : sig == SIGABRT ? 2 : sig == SIGBUS ? 3 : sig == SIGALRM ? 4 : 0));
}
inline void terminate_handler()
{
  crash_handler(SIGABRT);
}
#if defined(__SANITIZE_ADDRESS__)
extern "C" void __sanitizer_set_death_callback(void (*)(void));
inline void sanitizer_death()
{
  crash_record_out(77); // the sanitizer goes on to end the process with its own exit code
}
#endif
inline void install_crash_handlers(const char* dir)
{
  g_crash_dir = dir;
#if defined(__SANITIZE_ADDRESS__)
  __sanitizer_set_death_callback(sanitizer_death);
#endif
  std::set_terminate(terminate_handler);
  struct sigaction sa;
  memset(&sa, 0, sizeof sa);
  sa.sa_handler = crash_handler;
  sigaction(SIGABRT, &sa, nullptr);
  sigaction(SIGBUS, &sa, nullptr);
  sigaction(SIGFPE, &sa, nullptr);
  sigaction(SIGILL, &sa, nullptr);
  sigaction(SIGALRM, &sa, nullptr);
  // SIGSEGV is installed by worlds that do not use the trap-MMU
}
inline void install_segv_handler()
{
  static char altstack[1 << 16];
  stack_t ss;
  ss.ss_sp = altstack;
  ss.ss_size = sizeof altstack;
  ss.ss_flags = 0;
  sigaltstack(&ss, nullptr);
  struct sigaction sa;
  memset(&sa, 0, sizeof sa);
  sa.sa_handler = crash_handler;
  sa.sa_flags = SA_ONSTACK;
  sigaction(SIGSEGV, &sa, nullptr);
}

} // namespace sim

#ifdef __SANITIZE_ADDRESS__
#  define SIM_ASAN 1
#elif defined(__has_feature)
#  if __has_feature(address_sanitizer)
#    define SIM_ASAN 1
#  endif
#endif
#ifdef SIM_ASAN
extern "C" __attribute__((used, visibility("default"))) const char* __asan_default_options()
{
  return "exitcode=77:detect_leaks=0:allow_user_segv_handler=1:handle_segv=0:handle_abort=0:abort_on_error=0";
}
#endif
