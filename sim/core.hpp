// Deterministic-simulation core: PRNG, plans, event log + hash, violations,
// statistics, shrinking, replay files, batch driver.  One translation unit per
// world includes this header and defines a `sim::World` subclass.
#pragma once
#include "allocfault.hpp"
#include <algorithm>
#include <chrono>
#include <cinttypes>
#include <cstdarg>
#include <cstdint>
#include <cstdio>
#include <cstdlib>
#include <cstring>
#include <functional>
#include <map>
#include <set>
#include <string>
#include <sys/wait.h>
#include <unistd.h>
#include <unordered_set>
#include <vector>

namespace sim {

// ---------------------------------------------------------------- PRNG
inline uint64_t splitmix64(uint64_t& x)
{
  uint64_t z = (x += 0x9e3779b97f4a7c15ULL);
  z = (z ^ (z >> 30)) * 0xbf58476d1ce4e5b9ULL;
  z = (z ^ (z >> 27)) * 0x94d049bb133111ebULL;
  return z ^ (z >> 31);
}
inline uint64_t mix2(uint64_t a, uint64_t b)
{
  uint64_t x = a ^ (b * 0x9e3779b97f4a7c15ULL) ^ 0xD1B54A32D192ED03ULL;
  splitmix64(x);
  return splitmix64(x);
}
struct Rng
{
  uint64_t s[4];
  explicit Rng(uint64_t seed)
  {
    uint64_t x = seed;
    for (auto& v : s)
      v = splitmix64(x);
  }
  static uint64_t rotl(uint64_t x, int k) { return (x << k) | (x >> (64 - k)); }
  uint64_t next()
  {
    uint64_t r = rotl(s[1] * 5, 7) * 9, t = s[1] << 17;
    s[2] ^= s[0];
    s[3] ^= s[1];
    s[1] ^= s[2];
    s[0] ^= s[3];
    s[2] ^= t;
    s[3] = rotl(s[3], 45);
    return r;
  }
  uint64_t below(uint64_t n) { return n ? next() % n : 0; }
  int64_t range(int64_t lo, int64_t hi) // inclusive
  {
    return lo + (int64_t)below((uint64_t)(hi - lo) + 1);
  }
  bool chance(unsigned num, unsigned den) { return below(den) < num; }
  template<typename T>
  const T& pick(const std::vector<T>& v)
  {
    return v[below(v.size())];
  }
  // pick index by weights
  size_t weighted(const std::vector<unsigned>& w)
  {
    uint64_t tot = 0;
    for (auto x : w)
      tot += x;
    uint64_t r = below(tot ? tot : 1);
    for (size_t i = 0; i < w.size(); i++) {
      if (r < w[i])
        return i;
      r -= w[i];
    }
    return w.size() - 1;
  }
};

// ---------------------------------------------------------------- plans
constexpr int NARGS = 6;
struct Op
{
  int kind = 0;
  int64_t a[NARGS] = { 0, 0, 0, 0, 0, 0 };
};
struct Plan
{
  std::vector<int64_t> cfg;
  std::vector<Op> ops;
};

// ---------------------------------------------------------------- context
struct Violation
{
  std::string prop, cls, detail;
  int op_index = -1;
};

struct Stats
{
  std::map<std::string, uint64_t> fired; // fault kinds that actually happened
  std::map<std::string, uint64_t> probes; // reach probes
  std::map<std::string, uint64_t> known; // known-finding hits by key
  std::map<std::string, uint64_t> opcount;
  uint64_t steps = 0;
  uint64_t sim_ns = 0;
  void merge(const Stats& o)
  {
    for (auto& [k, v] : o.fired)
      fired[k] += v;
    for (auto& [k, v] : o.probes)
      probes[k] += v;
    for (auto& [k, v] : o.known)
      known[k] += v;
    for (auto& [k, v] : o.opcount)
      opcount[k] += v;
    steps += o.steps;
    sim_ns += o.sim_ns;
  }
};

struct Ctx
{
  uint64_t hash = 1469598103934665603ULL;
  bool trace = false;
  std::vector<std::string> lines;
  std::vector<Violation> violations;
  std::vector<std::string> notes;
  Stats st;
  const std::set<std::string>* known = nullptr;
  bool stop = false;
  int cur_op = -1;
  bool nontrivial = false;

  void hbytes(const void* p, size_t n)
  {
    auto c = (const unsigned char*)p;
    for (size_t i = 0; i < n; i++) {
      hash ^= c[i];
      hash *= 1099511628211ULL;
    }
  }
  void ev(const char* fmt, ...) __attribute__((format(printf, 2, 3)))
  {
    AllocPause nofail;
    char buf[512];
    va_list ap;
    va_start(ap, fmt);
    int n = vsnprintf(buf, sizeof buf, fmt, ap);
    va_end(ap);
    if (n < 0)
      n = 0;
    if (n >= (int)sizeof buf)
      n = sizeof buf - 1;
    hbytes(buf, (size_t)n);
    hbytes("\n", 1);
    if (trace)
      lines.emplace_back(buf, (size_t)n);
  }
  void fired(const char* f)
  {
    AllocPause nofail;
    st.fired[f]++;
    nontrivial = true;
  }
  void probe(const char* p)
  {
    AllocPause nofail;
    st.probes[p]++;
    nontrivial = true;
  }
  void note(const std::string& s)
  {
    AllocPause nofail;
    if (trace)
      notes.push_back(s);
  }
  // Report a deviation.  Returns true when it is a listed known finding (the
  // caller then resynchronises its model on the implementation and goes on).
  bool violate(const char* prop, const std::string& cls, const char* fmt, ...)
    __attribute__((format(printf, 4, 5)))
  {
    AllocPause nofail;
    char buf[768];
    va_list ap;
    va_start(ap, fmt);
    vsnprintf(buf, sizeof buf, fmt, ap);
    va_end(ap);
    std::string key = std::string(prop) + ":" + cls;
    ev("DEVIATION %s", key.c_str());
    if (known && known->count(key)) {
      st.known[key]++;
      nontrivial = true;
      return true;
    }
    Violation v;
    v.prop = prop;
    v.cls = cls;
    v.detail = buf;
    v.op_index = cur_op;
    violations.push_back(v);
    stop = true;
    return false;
  }
};

// ---------------------------------------------------------------- world
struct World
{
  virtual ~World() {}
  virtual const char* name() const = 0;
  virtual const char* op_name(int kind) const = 0;
  virtual int op_kind_count() const = 0;
  virtual Plan generate(Rng& r, bool thorough) = 0;
  virtual void run(const Plan& p, Ctx& c) = 0;
  // optional completely enumerated sub-space
  virtual uint64_t enum_count(bool /*thorough*/) { return 0; }
  virtual Plan enum_plan(uint64_t /*i*/, bool /*thorough*/) { return Plan(); }
  // optional: fixed regression plans (always run first by worker 0)
  virtual std::vector<Plan> regression_plans() { return {}; }
  // per-arg simplification hint: candidate simpler values for arg j of op
  virtual std::vector<int64_t> simpler(const Op&, int j, int64_t v)
  {
    (void)j;
    std::vector<int64_t> r;
    if (v != 0)
      r.push_back(0);
    if (v > 1 || v < -1)
      r.push_back(v / 2);
    if (v > 0)
      r.push_back(v - 1);
    if (v < 0)
      r.push_back(v + 1);
    return r;
  }
  // extra coverage written by the world at the end of a batch (json fragment
  // without braces, may be empty)
  virtual std::string extra_summary() { return ""; }
};

// Progress marker read by crash handlers / the supervising driver.
struct Progress
{
  uint64_t index = 0;
  uint64_t runseed = 0;
  int phase = 0; // 0 idle 1 primary 2 determinism 3 shrink
};
inline Progress g_progress;
inline std::string g_crash_dir;
inline World* g_world = nullptr;
inline Plan g_current_plan;
// Crash record prepared BEFORE each run so that the signal handler only needs open/write.
inline char g_crash_path[512];
inline char g_crash_buf[1 << 20];
inline size_t g_crash_len = 0;
inline unsigned g_run_alarm_s = 60; // watchdog per run (SIGALRM -> treated like a crash: "hang")
inline unsigned g_isolated_alarm_s = 0; // watchdog of forked executions (0: the same); shortened while a hang is being minimised
inline unsigned g_shrink_max_reruns = 3000;

// ---------------------------------------------------------------- json (tiny)
inline std::string jesc(const std::string& s)
{
  std::string o;
  for (char ch : s) {
    unsigned char c = (unsigned char)ch;
    if (c == '"' || c == '\\') {
      o += '\\';
      o += ch;
    } else if (c == '\n')
      o += "\\n";
    else if (c < 0x20) {
      char b[8];
      snprintf(b, sizeof b, "\\u%04x", c);
      o += b;
    } else
      o += ch;
  }
  return o;
}

inline std::string plan_json(const World& w, const Plan& p)
{
  std::string s = "{\"cfg\":[";
  for (size_t i = 0; i < p.cfg.size(); i++) {
    if (i)
      s += ",";
    s += std::to_string(p.cfg[i]);
  }
  s += "],\"ops\":[";
  for (size_t i = 0; i < p.ops.size(); i++) {
    if (i)
      s += ",";
    s += "[\"";
    s += w.op_name(p.ops[i].kind);
    s += "\"";
    for (int j = 0; j < NARGS; j++) {
      s += ",";
      s += std::to_string(p.ops[i].a[j]);
    }
    s += "]";
  }
  s += "]}";
  return s;
}

#ifndef SIM_BUILD_NAME
#  define SIM_BUILD_NAME "plain"
#endif
inline void prepare_crash_record(const World& w, const Plan& p, uint64_t rs, uint64_t idx)
{
  g_crash_len = 0;
  g_crash_path[0] = 0;
  if (g_crash_dir.empty())
    return;
  snprintf(g_crash_path, sizeof g_crash_path, "%s/crash-%s-%llu-%llu.json", g_crash_dir.c_str(), w.name(), (unsigned long long)rs, (unsigned long long)idx);
  std::string pj = plan_json(w, p);
  int n = snprintf(g_crash_buf,
                   sizeof g_crash_buf,
                   "{\"world\":\"%s\",\"property\":\"-\",\"class\":\"crash\",\"detail\":\"worker died\",\"runseed\":%llu,\"hash\":\"0\",\"build\":\"%s\",\n\"plan\":%s,\n\"trace\":[]}\n",
                   w.name(),
                   (unsigned long long)rs,
                   SIM_BUILD_NAME,
                   pj.c_str());
  g_crash_len = n > 0 && (size_t)n < sizeof g_crash_buf ? (size_t)n : 0;
}

// A world that executes library code while it generates a plan (a dry execution to size the fault space) announces the
// part of the plan that execution depends on first: should the process die there, this is the plan that is kept.
inline uint64_t g_gen_rs = 0, g_gen_idx = 0;
inline void provisional_crash_record(const World& w, const Plan& p)
{
  prepare_crash_record(w, p, g_gen_rs, g_gen_idx);
}

// Minimal parser for the files written by plan_json / write_replay.
struct JParse
{
  const char* p;
  explicit JParse(const char* s)
    : p(s)
  {}
  void ws()
  {
    while (*p == ' ' || *p == '\n' || *p == '\t' || *p == '\r')
      p++;
  }
  bool eat(char c)
  {
    ws();
    if (*p == c) {
      p++;
      return true;
    }
    return false;
  }
  std::string str()
  {
    ws();
    std::string o;
    if (*p != '"')
      return o;
    p++;
    while (*p && *p != '"') {
      if (*p == '\\' && p[1]) {
        p++;
        if (*p == 'n')
          o += '\n';
        else
          o += *p;
        p++;
      } else
        o += *p++;
    }
    if (*p == '"')
      p++;
    return o;
  }
  int64_t num()
  {
    ws();
    char* e;
    long long v = strtoll(p, &e, 10);
    p = e;
    return v;
  }
  // skip any value
  void skip()
  {
    ws();
    if (*p == '"') {
      str();
    } else if (*p == '[' || *p == '{') {
      char open = *p, close = (open == '[') ? ']' : '}';
      p++;
      ws();
      if (*p == close) {
        p++;
        return;
      }
      for (;;) {
        if (open == '{') {
          str();
          eat(':');
        }
        skip();
        if (eat(','))
          continue;
        eat(close);
        break;
      }
    } else {
      while (*p && *p != ',' && *p != ']' && *p != '}')
        p++;
    }
  }
};

inline bool parse_plan_obj(JParse& j, const World& w, Plan& out, std::string& err)
{
  if (!j.eat('{')) {
    err = "expected {";
    return false;
  }
  for (;;) {
    std::string key = j.str();
    j.eat(':');
    if (key == "cfg") {
      j.eat('[');
      if (!j.eat(']')) {
        for (;;) {
          out.cfg.push_back(j.num());
          if (j.eat(','))
            continue;
          j.eat(']');
          break;
        }
      }
    } else if (key == "ops") {
      j.eat('[');
      if (!j.eat(']')) {
        for (;;) {
          j.eat('[');
          std::string nm = j.str();
          Op op;
          op.kind = -1;
          for (int k = 0; k < w.op_kind_count(); k++)
            if (nm == w.op_name(k))
              op.kind = k;
          if (op.kind < 0) {
            err = "unknown op " + nm;
            return false;
          }
          for (int a = 0; a < NARGS; a++) {
            j.eat(',');
            op.a[a] = j.num();
          }
          j.eat(']');
          out.ops.push_back(op);
          if (j.eat(','))
            continue;
          j.eat(']');
          break;
        }
      }
    } else {
      j.skip();
    }
    if (j.eat(','))
      continue;
    j.eat('}');
    break;
  }
  return true;
}

inline std::string hex64(uint64_t v)
{
  char b[24];
  snprintf(b, sizeof b, "%016" PRIx64, v);
  return b;
}

// ---------------------------------------------------------------- execution
struct Exec
{
  uint64_t hash = 0;
  std::vector<Violation> v;
  bool nontrivial = false;
  Stats st;
  std::vector<std::string> lines;
};

inline Exec execute(World& w,
                    const Plan& p,
                    const std::set<std::string>* known,
                    bool trace = false)
{
  Ctx c;
  c.known = known;
  c.trace = trace;
  c.ev("world %s", w.name());
  w.run(p, c);
  Exec e;
  e.hash = c.hash;
  e.v = c.violations;
  e.nontrivial = c.nontrivial;
  e.st = c.st;
  e.lines = std::move(c.lines);
  return e;
}

// Execute one plan in a forked child so that whatever the run does to
// process-wide state of the code under test (static registries, thread-local
// records) cannot leak into the next execution.  A child that dies is
// reported as a violation of class "crash:<signal>".
inline Exec execute_isolated(World& w,
                             const Plan& p,
                             const std::set<std::string>* known,
                             bool trace = false)
{
  int fd[2];
  if (pipe(fd) != 0) {
    perror("pipe");
    exit(2);
  }
  fflush(stdout);
  pid_t pid = fork();
  if (pid == 0) {
    close(fd[0]);
    // crash handlers of the worker must not write crash plans for these children
    g_crash_dir.clear();
    g_crash_len = 0;
    alarm(g_isolated_alarm_s ? g_isolated_alarm_s : g_run_alarm_s);
    Exec e = execute(w, p, known, trace);
    alarm(0);
    std::string out;
    out += "H " + hex64(e.hash) + " " + std::to_string((int)e.nontrivial) + "\n";
    for (auto& v : e.v)
      out += "V " + v.prop + "\t" + v.cls + "\t" + std::to_string(v.op_index) + "\t" + v.detail + "\n";
    for (auto& l : e.lines)
      out += "L " + l + "\n";
    size_t off = 0;
    while (off < out.size()) {
      ssize_t n = write(fd[1], out.data() + off, out.size() - off);
      if (n <= 0)
        break;
      off += (size_t)n;
    }
    close(fd[1]);
    _exit(0);
  }
  close(fd[1]);
  std::string in;
  char buf[65536];
  ssize_t n;
  while ((n = read(fd[0], buf, sizeof buf)) > 0)
    in.append(buf, (size_t)n);
  close(fd[0]);
  int status = 0;
  waitpid(pid, &status, 0);
  Exec e;
  size_t i = 0;
  bool got_h = false;
  while (i < in.size()) {
    size_t j = in.find('\n', i);
    if (j == std::string::npos)
      j = in.size();
    std::string line = in.substr(i, j - i);
    i = j + 1;
    if (line.size() < 2)
      continue;
    if (line[0] == 'H') {
      e.hash = strtoull(line.substr(2, 16).c_str(), nullptr, 16);
      e.nontrivial = line.size() > 19 && line[19] == '1';
      got_h = true;
    } else if (line[0] == 'V') {
      Violation v;
      std::string r = line.substr(2);
      size_t a = r.find('\t'), b = r.find('\t', a + 1), c = r.find('\t', b + 1);
      if (a != std::string::npos && b != std::string::npos && c != std::string::npos) {
        v.prop = r.substr(0, a);
        v.cls = r.substr(a + 1, b - a - 1);
        v.op_index = atoi(r.substr(b + 1, c - b - 1).c_str());
        v.detail = r.substr(c + 1);
        e.v.push_back(v);
      }
    } else if (line[0] == 'L') {
      e.lines.push_back(line.substr(2));
    }
  }
  if (!got_h || !WIFEXITED(status) || WEXITSTATUS(status) != 0) {
    Violation v;
    v.prop = "-";
    int sig = WIFSIGNALED(status) ? WTERMSIG(status) : 0;
    int code = WIFEXITED(status) ? WEXITSTATUS(status) : 0;
    v.cls = "crash:" + (sig ? "signal" + std::to_string(sig) : "exit" + std::to_string(code));
    v.detail = "the process executing this plan died";
    e.v.push_back(v);
  }
  return e;
}

inline bool has_violation(const Exec& e,
                          const std::string& prop,
                          const std::string& cls)
{
  for (auto& v : e.v)
    if (v.prop == prop && v.cls == cls)
      return true;
  return false;
}

// Greedy ddmin over ops, then per-arg simplification, while the same
// (property, class) violation persists.
inline Plan shrink(World& w,
                   Plan p,
                   const std::set<std::string>* known,
                   const std::string& prop,
                   const std::string& cls,
                   unsigned* reruns_out = nullptr,
                   bool isolated = true)
{
  unsigned reruns = 0;
  auto fails = [&](const Plan& q) {
    reruns++;
    Exec e = isolated ? execute_isolated(w, q, known) : execute(w, q, known);
    return has_violation(e, prop, cls);
  };
  // drop chunks
  size_t chunk = p.ops.size() / 2;
  if (chunk < 1)
    chunk = 1;
  while (chunk >= 1 && reruns < g_shrink_max_reruns) {
    bool any = false;
    for (size_t i = 0; i + chunk <= p.ops.size() && reruns < g_shrink_max_reruns;) {
      Plan q = p;
      q.ops.erase(q.ops.begin() + (long)i, q.ops.begin() + (long)(i + chunk));
      if (fails(q)) {
        p = q;
        any = true;
      } else {
        i += chunk;
      }
    }
    if (chunk == 1 && !any)
      break;
    if (!any || chunk > p.ops.size())
      chunk = chunk / 2;
    if (chunk < 1)
      break;
  }
  // simplify args (two passes)
  for (int pass = 0; pass < 2; pass++) {
    for (size_t i = 0; i < p.ops.size() && reruns < 2 * g_shrink_max_reruns; i++) {
      for (int j = 0; j < NARGS; j++) {
        bool improved = true;
        int guard = 0;
        while (improved && guard++ < 40) {
          improved = false;
          for (int64_t cand : w.simpler(p.ops[i], j, p.ops[i].a[j])) {
            if (cand == p.ops[i].a[j])
              continue;
            Plan q = p;
            q.ops[i].a[j] = cand;
            if (fails(q)) {
              p = q;
              improved = true;
              break;
            }
          }
        }
      }
    }
    // cfg values toward 0 where that keeps failing
    for (size_t i = 0; i < p.cfg.size(); i++) {
      if (p.cfg[i] != 0) {
        Plan q = p;
        q.cfg[i] = 0;
        if (fails(q))
          p = q;
      }
    }
    // one more single-op deletion sweep
    for (size_t i = 0; i < p.ops.size() && reruns < 3 * g_shrink_max_reruns;) {
      Plan q = p;
      q.ops.erase(q.ops.begin() + (long)i);
      if (fails(q))
        p = q;
      else
        i++;
    }
  }
  if (reruns_out)
    *reruns_out = reruns;
  return p;
}

inline bool write_replay(const std::string& path,
                         World& w,
                         const Plan& p,
                         const std::string& prop,
                         const std::string& cls,
                         const std::string& detail,
                         uint64_t runseed,
                         uint64_t hash,
                         const char* build,
                         const std::vector<std::string>& trace)
{
  FILE* f = fopen(path.c_str(), "w");
  if (!f)
    return false;
  fprintf(f,
          "{\"world\":\"%s\",\"property\":\"%s\",\"class\":\"%s\",\"detail\":\"%s\","
          "\"runseed\":%" PRIu64 ",\"hash\":\"%s\",\"build\":\"%s\",\n\"plan\":%s,\n\"trace\":[",
          w.name(),
          prop.c_str(),
          jesc(cls).c_str(),
          jesc(detail).c_str(),
          runseed,
          hex64(hash).c_str(),
          build,
          plan_json(w, p).c_str());
  for (size_t i = 0; i < trace.size(); i++)
    fprintf(f, "%s\n \"%s\"", i ? "," : "", jesc(trace[i]).c_str());
  fprintf(f, "]}\n");
  fclose(f);
  return true;
}

struct Replay
{
  std::string world, prop, cls, hash;
  Plan plan;
};
inline bool read_replay(const std::string& path, const World& w, Replay& r, std::string& err)
{
  FILE* f = fopen(path.c_str(), "r");
  if (!f) {
    err = "cannot open " + path;
    return false;
  }
  std::string s;
  char buf[4096];
  size_t n;
  while ((n = fread(buf, 1, sizeof buf, f)) > 0)
    s.append(buf, n);
  fclose(f);
  JParse j(s.c_str());
  if (!j.eat('{')) {
    err = "bad replay file";
    return false;
  }
  for (;;) {
    std::string key = j.str();
    j.eat(':');
    if (key == "world")
      r.world = j.str();
    else if (key == "property")
      r.prop = j.str();
    else if (key == "class")
      r.cls = j.str();
    else if (key == "hash")
      r.hash = j.str();
    else if (key == "plan") {
      if (!parse_plan_obj(j, w, r.plan, err))
        return false;
    } else
      j.skip();
    if (j.eat(','))
      continue;
    break;
  }
  return true;
}

#ifndef SIM_BUILD_NAME
#  define SIM_BUILD_NAME "plain"
#endif

inline double now_s()
{
  using namespace std::chrono;
  return duration<double>(steady_clock::now().time_since_epoch()).count();
}

inline std::string stats_json(const Stats& st)
{
  auto m = [](const std::map<std::string, uint64_t>& mm) {
    std::string s = "{";
    bool first = true;
    for (auto& [k, v] : mm) {
      if (!first)
        s += ",";
      first = false;
      s += "\"" + jesc(k) + "\":" + std::to_string(v);
    }
    return s + "}";
  };
  return "\"fired\":" + m(st.fired) + ",\"probes\":" + m(st.probes) +
         ",\"known\":" + m(st.known) + ",\"ops\":" + m(st.opcount) +
         ",\"steps\":" + std::to_string(st.steps) +
         ",\"sim_ns\":" + std::to_string(st.sim_ns);
}

// ---------------------------------------------------------------- main
inline int sim_main(World& w, int argc, char** argv)
{
  g_world = &w;
  std::string mode = "batch", replay_path, props_s, known_s, hashfile, outdir = "replays", dumpfile;
  FILE* dump = nullptr;
  uint64_t seed = 1, start = 0, count = 100, enum_start = 0, enum_count = 0;
  double time_limit = 1e9;
  bool thorough = false, trace = false, regress = false;
  unsigned det_every = 16;
  uint64_t regress_start = 0;
  for (int i = 1; i < argc; i++) {
    std::string a = argv[i];
    auto nxt = [&]() -> std::string { return (i + 1 < argc) ? argv[++i] : ""; };
    if (a == "--replay") {
      mode = "replay";
      replay_path = nxt();
    } else if (a == "--seed")
      seed = strtoull(nxt().c_str(), nullptr, 10);
    else if (a == "--start")
      start = strtoull(nxt().c_str(), nullptr, 10);
    else if (a == "--count")
      count = strtoull(nxt().c_str(), nullptr, 10);
    else if (a == "--enum-start")
      enum_start = strtoull(nxt().c_str(), nullptr, 10);
    else if (a == "--enum-count")
      enum_count = strtoull(nxt().c_str(), nullptr, 10);
    else if (a == "--props")
      props_s = nxt();
    else if (a == "--known")
      known_s = nxt();
    else if (a == "--hashfile")
      hashfile = nxt();
    else if (a == "--outdir")
      outdir = nxt();
    else if (a == "--dump-hashes")
      dumpfile = nxt();
    else if (a == "--time-limit")
      time_limit = atof(nxt().c_str());
    else if (a == "--thorough")
      thorough = true;
    else if (a == "--trace")
      trace = true;
    else if (a == "--regress")
      regress = true;
    else if (a == "--regress-start")
      regress_start = strtoull(nxt().c_str(), nullptr, 10);
    else if (a == "--replay-twice") {
      mode = "replay2";
      replay_path = nxt();
    } else if (a == "--shrink") {
      mode = "shrink";
      replay_path = nxt();
    } else if (a == "--det-every")
      det_every = (unsigned)atoi(nxt().c_str());
    else if (a == "--enum-size") {
      printf("%" PRIu64 "\n", w.enum_count(thorough));
      return 0;
    } else if (a == "--gen") { // print the plan of one run-seed index
      mode = "gen";
    } else {
      fprintf(stderr, "unknown arg %s\n", a.c_str());
      return 2;
    }
  }
  auto split = [](const std::string& s) {
    std::set<std::string> r;
    size_t i = 0;
    while (i < s.size()) {
      size_t j = s.find(',', i);
      if (j == std::string::npos)
        j = s.size();
      if (j > i)
        r.insert(s.substr(i, j - i));
      i = j + 1;
    }
    return r;
  };
  std::set<std::string> props = split(props_s), known = split(known_s);
  if (!g_crash_dir.empty())
    g_crash_dir = outdir; // crash records go where this invocation's other work files go

  if (mode == "replay") {
    Replay r;
    std::string err;
    if (!read_replay(replay_path, w, r, err)) {
      fprintf(stderr, "replay: %s\n", err.c_str());
      return 2;
    }
    if (r.world != w.name()) {
      fprintf(stderr, "replay: file is for world %s, this is %s\n", r.world.c_str(), w.name());
      return 2;
    }
    g_current_plan = r.plan;
    g_crash_len = 0;
    alarm(g_run_alarm_s);
    Exec e = execute(w, r.plan, &known, true);
    alarm(0);
    for (auto& l : e.lines)
      printf("  %s\n", l.c_str());
    printf("REPLAY hash=%s recorded=%s\n", hex64(e.hash).c_str(), r.hash.c_str());
    bool same = false;
    for (auto& v : e.v) {
      printf("REPLAY-VIOLATION property=%s class=%s op=%d detail=%s\n",
             v.prop.c_str(),
             v.cls.c_str(),
             v.op_index,
             v.detail.c_str());
      if (v.prop == r.prop && v.cls == r.cls)
        same = true;
    }
    if (same) {
      printf("REPLAY-REPRODUCED property=%s class=%s hash_match=%d\n",
             r.prop.c_str(),
             r.cls.c_str(),
             (int)(hex64(e.hash) == r.hash));
      return 1;
    }
    printf("REPLAY-CLEAN\n");
    return 0;
  }

  if (mode == "replay2") {
    // debugging aid: execute one plan twice in this process and print the first differing event
    Replay r;
    std::string err;
    if (!read_replay(replay_path, w, r, err)) {
      fprintf(stderr, "replay: %s\n", err.c_str());
      return 2;
    }
    Exec a = execute(w, r.plan, &known, true), b = execute(w, r.plan, &known, true);
    size_t n = std::min(a.lines.size(), b.lines.size());
    for (size_t i = 0; i < n; i++)
      if (a.lines[i] != b.lines[i]) {
        printf("first difference at event %zu:\n  1: %s\n  2: %s\n", i, a.lines[i].c_str(), b.lines[i].c_str());
        return 1;
      }
    printf("%s (%zu vs %zu events)\n", a.lines.size() == b.lines.size() ? "identical" : "one is a prefix of the other", a.lines.size(), b.lines.size());
    return a.hash == b.hash ? 0 : 1;
  }

  if (mode == "shrink") {
    // Runs in a fresh process; every execution happens in a forked child.
    Replay r;
    std::string err;
    if (!read_replay(replay_path, w, r, err)) {
      fprintf(stderr, "shrink: %s\n", err.c_str());
      return 2;
    }
    std::string prop = r.prop, cls = r.cls;
    Exec e1 = execute_isolated(w, r.plan, &known);
    if (cls == "crash") {
      // a worker died on this plan: adopt the crash class observed in isolation
      cls.clear();
      for (auto& v : e1.v)
        if (v.cls.rfind("crash:", 0) == 0)
          cls = v.cls;
      if (cls.empty()) {
        printf("NOT-REPRODUCED file=%s reason=no-crash-in-isolation\n", replay_path.c_str());
        return 0;
      }
      prop = "-";
    }
    Exec e2 = execute_isolated(w, r.plan, &known);
    if (!has_violation(e1, prop, cls) || !has_violation(e2, prop, cls)) {
      printf("NOT-REPRODUCED file=%s property=%s class=%s\n", replay_path.c_str(), prop.c_str(), cls.c_str());
      return 0;
    }
    if (e1.hash != e2.hash && cls.rfind("crash:", 0) != 0) {
      printf("NOT-DETERMINISTIC file=%s h1=%s h2=%s\n", replay_path.c_str(), hex64(e1.hash).c_str(), hex64(e2.hash).c_str());
      return 0;
    }
    unsigned reruns = 0;
    bool hang = cls == "crash:exit74";
    if (hang) {
      // every failing execution of a hang costs a full watchdog period: minimise with a shorter one and fewer attempts,
      // then confirm the result under the full period (and keep the original plan if it does not hold)
      g_isolated_alarm_s = g_run_alarm_s / 5 < 5 ? 5 : g_run_alarm_s / 5;
      g_shrink_max_reruns = 80;
    }
    Plan m = shrink(w, r.plan, &known, prop, cls, &reruns, true);
    g_isolated_alarm_s = 0;
    g_shrink_max_reruns = 3000;
    Exec fin = execute_isolated(w, m, &known, true);
    if (hang && !has_violation(fin, prop, cls)) {
      m = r.plan;
      fin = execute_isolated(w, m, &known, true);
    }
    std::string detail;
    for (auto& fv : fin.v)
      if (fv.prop == prop && fv.cls == cls)
        detail = fv.detail;
    std::string outp = replay_path;
    size_t rawpos = outp.find("raw-");
    if (rawpos != std::string::npos)
      outp.replace(rawpos, 4, "min-");
    else
      outp += ".min.json";
    write_replay(outp, w, m, r.prop == "-" || r.cls == "crash" ? r.prop : prop, cls, detail, 0, fin.hash, SIM_BUILD_NAME, fin.lines);
    printf("CANDIDATE property=%s class=%s replay=%s ops=%zu from=%zu reruns=%u detail=%s\n",
           prop.c_str(),
           cls.c_str(),
           outp.c_str(),
           m.ops.size(),
           r.plan.ops.size(),
           reruns,
           detail.c_str());
    return 0;
  }

  if (mode == "gen") {
    uint64_t rs = mix2(seed, start);
    Rng r(rs);
    Plan p = w.generate(r, thorough);
    printf("%s\n", plan_json(w, p).c_str());
    return 0;
  }

  // ---- batch
  if (!dumpfile.empty())
    dump = fopen(dumpfile.c_str(), "w");
  double t0 = now_s();
  Stats total;
  uint64_t evaluations = 0, det_checked = 0, nontrivial_runs = 0;
  std::unordered_set<uint64_t> distinct;
  std::vector<std::string> samples;
  int rc = 0;

  bool stopped = false;
  uint64_t stopped_idx = 0;
  std::string stopped_kind;
  uint64_t violating_runs = 0;
  auto handle = [&](const Plan& p, uint64_t idx, uint64_t rs, const char* kind) {
    g_progress.index = idx;
    g_progress.runseed = rs;
    g_progress.phase = 1;
    g_current_plan = p;
    prepare_crash_record(w, p, rs, idx);
    printf("BEGIN %s %" PRIu64 " %" PRIu64 "\n", kind, idx, rs);
    fflush(stdout);
    alarm(g_run_alarm_s);
    bool will_recheck = det_every && ((evaluations + 1) % det_every == 0);
    Exec e = execute(w, p, &known, will_recheck); // traced when it is going to be re-executed, to show a divergence
    alarm(0);
    evaluations++;
    total.merge(e.st);
    if (dump)
      fprintf(dump, "%s %" PRIu64 " %s\n", kind, idx, hex64(e.hash).c_str());
    if (e.nontrivial) {
      nontrivial_runs++;
      distinct.insert(e.hash);
    }
    if (samples.size() < 3 && e.nontrivial && (evaluations % 7 == 1 || samples.empty()))
      samples.push_back(plan_json(w, p));
    if (!e.v.empty()) {
      // Any deviation may have left process-wide state of the code under test
      // (static registries, thread-local records) inconsistent: this process
      // executes nothing further.  Gate, shrinking and the remaining runs
      // happen in fresh processes started by the driver.
      violating_runs++;
      const Violation* pick = nullptr;
      for (auto& v : e.v)
        if (props.empty() || props.count(v.prop)) {
          pick = &v;
          break;
        }
      if (pick) {
        std::string path = outdir + "/raw-" + w.name() + "-" + std::to_string(rs) + "-" + kind + std::to_string(idx) + ".json";
        write_replay(path, w, p, pick->prop, pick->cls, pick->detail, rs, e.hash, SIM_BUILD_NAME, {});
        printf("RAWCANDIDATE property=%s class=%s file=%s detail=%s\n", pick->prop.c_str(), pick->cls.c_str(), path.c_str(), pick->detail.c_str());
      } else {
        total.probes["other_property_deviation:" + e.v[0].prop]++;
      }
      stopped = true;
      stopped_idx = idx;
      stopped_kind = kind;
      g_progress.phase = 0;
      return;
    }
    if (det_every && (evaluations % det_every == 0)) {
      g_progress.phase = 2;
      alarm(g_run_alarm_s); // a re-execution that hangs or dies is reported like the primary one (DIED ... phase=2)
      Exec e2 = execute(w, p, &known, true);
      alarm(0);
      det_checked++;
      if (e2.hash != e.hash) {
        printf("NONDETERMINISM idx=%" PRIu64 " runseed=%" PRIu64 " h1=%s h2=%s\n",
               idx,
               rs,
               hex64(e.hash).c_str(),
               hex64(e2.hash).c_str());
        {
          size_t n = std::min(e.lines.size(), e2.lines.size()), k = 0;
          while (k < n && e.lines[k] == e2.lines[k])
            k++;
          printf("NONDET-DIFF event %zu of %zu/%zu: [%s] vs [%s]\n",
                 k,
                 e.lines.size(),
                 e2.lines.size(),
                 k < e.lines.size() ? e.lines[k].c_str() : "<end>",
                 k < e2.lines.size() ? e2.lines[k].c_str() : "<end>");
        }
        std::string path = outdir + "/nondet-" + w.name() + "-" + std::to_string(rs) + ".json";
        Exec t1 = execute(w, p, &known, true);
        write_replay(path, w, p, "-", "nondeterminism", "", rs, e.hash, SIM_BUILD_NAME, t1.lines);
        rc = 3;
        return;
      }
    }
    g_progress.phase = 0;
  };

  if (regress) {
    auto rp = w.regression_plans();
    for (size_t i = regress_start; i < rp.size() && rc == 0 && !stopped; i++)
      handle(rp[i], i, 0, "regr");
  }
  uint64_t after_regress = evaluations;
  for (uint64_t i = 0; i < enum_count && rc == 0 && !stopped; i++) {
    if (now_s() - t0 > time_limit)
      break;
    handle(w.enum_plan(enum_start + i, thorough), enum_start + i, 0, "enum");
  }
  uint64_t enumerated_runs = evaluations - after_regress;
  uint64_t done_rand = 0;
  for (uint64_t i = 0; i < count && rc == 0 && !stopped; i++) {
    if (now_s() - t0 > time_limit)
      break;
    uint64_t rs = mix2(seed, start + i);
    Rng r(rs);
    g_gen_rs = rs;
    g_gen_idx = start + i;
    g_crash_len = 0;
    Plan p = w.generate(r, thorough);
    handle(p, start + i, rs, "rand");
    done_rand++;
  }
  if (dump)
    fclose(dump);
  if (!hashfile.empty()) {
    FILE* f = fopen(hashfile.c_str(), "wb");
    if (f) {
      for (auto h : distinct)
        fwrite(&h, 8, 1, f);
      fclose(f);
    }
  }
  std::string sj = "[";
  for (size_t i = 0; i < samples.size(); i++)
    sj += (i ? "," : "") + samples[i];
  sj += "]";
  std::string extra = w.extra_summary();
  printf("SUMMARY {\"world\":\"%s\",\"build\":\"%s\",\"evaluations\":%" PRIu64
         ",\"random_runs\":%" PRIu64 ",\"enumerated_runs\":%" PRIu64 ",\"nontrivial_runs\":%" PRIu64 ",\"distinct\":%zu,"
         "\"det_checked\":%" PRIu64 ",\"violating_runs\":%" PRIu64 ",\"stopped\":%d,\"stopped_kind\":\"%s\",\"stopped_idx\":%" PRIu64
         ",\"wall_s\":%.3f,%s,\"samples\":%s%s%s}\n",
         w.name(),
         SIM_BUILD_NAME,
         evaluations,
         done_rand,
         enumerated_runs,
         nontrivial_runs,
         distinct.size(),
         det_checked,
         violating_runs,
         (int)stopped,
         stopped_kind.c_str(),
         stopped_idx,
         now_s() - t0,
         stats_json(total).c_str(),
         sj.c_str(),
         extra.empty() ? "" : ",",
         extra.c_str());
  fflush(stdout);
  return rc;
}

} // namespace sim
