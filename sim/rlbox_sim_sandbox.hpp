// Foreign-ABI sandbox backend *stub* for the simulation (not part of RLBox).
// ILP32 guest on an LP64 host: 32-bit long, 32-bit pointer representation =
// offset into a power-of-two region; function pointers = indices into a
// per-instance table; callbacks occupy a bounded number of table slots.
// Shaped after the out-of-tree wasm2c plug-in.  Include AFTER rlbox.hpp.
#pragma once
#include <atomic>
#include <cstdint>
#include <cstring>
#include <map>
#include <mutex>
#include <string>
#include <sys/mman.h>
#include <unistd.h>
#include <utility>
#include <vector>

#include "core.hpp"

#ifndef SIM_PTR_T
#  define SIM_PTR_T uint32_t
#endif

namespace sim {

inline thread_local Ctx* g_ctx = nullptr; // current run (per thread: the threads world gives every thread its own)
inline void (*g_yield)(const char* where) = nullptr; // scheduler hook (threads world)
inline void (*g_ev_hook)(const char* line) = nullptr; // per-thread logging hook

#define SIM_YIELD(where)                                                       \
  do {                                                                         \
    if (::sim::g_yield)                                                        \
      ::sim::g_yield(where);                                                   \
  } while (0)

inline void bev(const char* fmt, ...) __attribute__((format(printf, 1, 2)));
inline void bev(const char* fmt, ...)
{
  char buf[320];
  va_list ap;
  va_start(ap, fmt);
  vsnprintf(buf, sizeof buf, fmt, ap);
  va_end(ap);
  if (g_ev_hook)
    g_ev_hook(buf);
  else if (g_ctx)
    g_ctx->ev("%s", buf);
}

// translating a function address is where a table-based backend would enter it into the guest's call table: the worlds
// watch that no address is brought there before it was accepted
inline thread_local uint64_t g_fn_translations = 0;

struct GuestTrap
{
  const char* why;
};

// Faults attached to the operation currently executing (set and cleared by
// the world around each operation).
struct FaultBox
{
  int malloc_fail = 0; // next N sandbox allocations return 0
  int malloc_straddle = 0; // next allocation returns a block touching the end
  int malloc_at_end = 0; // next allocation returns (if that space is free) the block whose last byte is the last byte of the region
  int malloc_wild = 0; // next allocation returns a guest pointer beyond the region; its translation (once) is base + that value
  int create_fail = 0; // next impl_create_sandbox returns false
  int grant_refuse = 0; // next grant/deny says success=false
  bool refuse_echoes_pointer = false; // ... and hands back the caller's pointer unchanged (the result is meaningless without success)
  int lookup_fail = 0; // next symbol lookup fails (abort)
  int unregister_fail = 0; // next impl_unregister_callback refuses (abort) and leaves the entry in place
  void clear() { *this = FaultBox(); }
};
inline thread_local FaultBox g_fault;

constexpr unsigned char CANARY = 0xC5;

struct Region
{
  uint8_t* arena = nullptr;
  size_t arena_len = 0;
  uint8_t* base = nullptr; // application view (what RLBox sees)
  uint8_t* gbase = nullptr; // guest view (always RW)
  size_t size = 0;
  int fd = -1;
  bool mmu = false;
};

// Simulator-side truth about which regions are alive; oracles use this and
// never ask the backend.
struct LiveRegion
{
  void* inst;
  uintptr_t base;
  size_t size;
  int id;
};
inline thread_local std::vector<LiveRegion> g_regions; // per thread (threads world: own objects only)
inline thread_local std::vector<Region> g_graveyard; // arenas of destroyed sandboxes, released at run end
inline thread_local int g_next_inst_id = 0;

inline const LiveRegion* region_of(const void* p)
{
  auto u = (uintptr_t)p;
  for (auto& r : g_regions)
    if (u >= r.base && u - r.base < r.size)
      return &r;
  return nullptr;
}

inline Region region_alloc(size_t size, bool mmu, bool guard_after, int subpage_slot = 0)
{
  Region r;
  r.size = size;
  r.mmu = mmu;
  const size_t pg = 4096;
  size_t span = size < pg ? pg : size;
  r.arena_len = 2 * span + 2 * pg;
  r.arena = (uint8_t*)mmap(nullptr, r.arena_len, PROT_READ | PROT_WRITE, MAP_PRIVATE | MAP_ANONYMOUS, -1, 0);
  if (r.arena == MAP_FAILED) {
    perror("mmap arena");
    abort();
  }
  memset(r.arena, CANARY, r.arena_len);
  uintptr_t a = (uintptr_t)r.arena + pg;
  a = (a + size - 1) & ~(uintptr_t)(size - 1);
  if (size < pg) // a region smaller than a page: both of its ends can lie inside a page, application bytes (canaries) on the same page
    a += (size_t)((unsigned)subpage_slot % (pg / size)) * size;
  r.base = (uint8_t*)a;
  if (mmu) {
    r.fd = memfd_create("simregion", 0);
    if (r.fd < 0 || ftruncate(r.fd, (off_t)size) != 0) {
      perror("memfd");
      abort();
    }
    void* m = mmap(r.base, size, PROT_READ | PROT_WRITE, MAP_SHARED | MAP_FIXED, r.fd, 0);
    void* g = mmap(nullptr, size, PROT_READ | PROT_WRITE, MAP_SHARED, r.fd, 0);
    if (m == MAP_FAILED || g == MAP_FAILED) {
      perror("mmap region");
      abort();
    }
    r.gbase = (uint8_t*)g;
  } else {
    r.gbase = r.base;
  }
  memset(r.gbase, 0, size);
  if (guard_after && size >= pg)
    mprotect(r.base + size, pg, PROT_NONE);
  return r;
}

inline void region_release(Region& r)
{
  if (r.mmu && r.gbase)
    munmap(r.gbase, r.size);
  if (r.fd >= 0)
    close(r.fd);
  if (r.arena)
    munmap(r.arena, r.arena_len);
  r = Region();
}

inline void graveyard_release()
{
  for (auto& r : g_graveyard)
    region_release(r);
  g_graveyard.clear();
}

// Regions released by destroyed sandboxes when SimConfig::reuse is on (shared by all threads).
inline std::mutex g_pool_mutex;
inline std::vector<Region> g_pool;
inline Region region_obtain(size_t size, bool mmu, bool guard_after, bool reuse, int subpage_slot = 0)
{
  if (reuse) {
    std::lock_guard<std::mutex> lk(g_pool_mutex);
    for (size_t i = 0; i < g_pool.size(); i++)
      if (g_pool[i].size == size && g_pool[i].mmu == mmu) {
        Region r = g_pool[i];
        g_pool.erase(g_pool.begin() + (long)i);
        memset(r.gbase, 0, r.size);
        return r;
      }
  }
  return region_alloc(size, mmu, guard_after, subpage_slot);
}
inline void region_retire(Region& r, bool reuse)
{
  if (reuse) {
    std::lock_guard<std::mutex> lk(g_pool_mutex);
    g_pool.push_back(r);
  } else {
    g_graveyard.push_back(r);
  }
  r = Region();
}
inline void pool_release()
{
  std::lock_guard<std::mutex> lk(g_pool_mutex);
  for (auto& r : g_pool)
    region_release(r);
  g_pool.clear();
}

inline void run_begin(Ctx* c)
{
  g_ctx = c;
  g_fault.clear();
  g_regions.clear();
  g_next_inst_id = 0;
}
inline void run_end()
{
  g_ctx = nullptr;
  g_fault.clear();
  g_regions.clear();
  graveyard_release();
  pool_release();
}

// Guest libraries: name -> host function implementing it with guest-ABI
// signature.  Index in the vector + 1 is the function-table index.
struct Sym
{
  const char* name;
  void* host;
};
inline std::vector<std::vector<Sym>>& libs()
{
  static std::vector<std::vector<Sym>> l;
  return l;
}

struct SimConfig
{
  size_t size = 65536; // power of two
  bool registry = false; // example-based operations go through the core's registry
  bool mmu = false;
  bool guard_after = false;
  int slots = 8; // callback entries per instance
  bool reuse = false; // regions of destroyed sandboxes are handed to later creates (same addresses come back)
  bool deny_in_place = false; // impl_deny_access succeeds and hands back the in-sandbox pointer (as noop does)
  int subpage_slot = 0; // regions smaller than a page: which size-aligned slot of the page they occupy
  bool lookup_null_on_missing = false; // a symbol the library does not export resolves to null (dlsym style) instead of aborting
  bool null_to_finder = false; // (registry flavour) impl_is_in_same_sandbox asks the core's finder about null addresses too instead of answering itself
  bool total_as_mask = false;
  size_t location_shift = 0; // impl_get_memory_location reports an address this many bytes BEFORE representation 0 (a control block in front of the guest's address space); the core never relies on the location // impl_get_total_memory reports size-1 (the convention of the test suite's own backend)
};

template<typename S>
struct sigtag
{
  static inline char c = 0;
};

} // namespace sim

namespace rlbox {

class rlbox_sim_sandbox
{
public:
  using T_LongLongType = int64_t;
  using T_LongType = int32_t;
#ifdef SIM_WIDE_INT
  using T_IntType = int64_t; // a guest whose int is wider than the application's (world `abi`)
#else
  using T_IntType = int32_t;
#endif
#ifdef SIM_PTR_AS_POINTER
  // the representation has a C++ pointer type (as in the bundled noop/dylib plug-ins) but is NOT the host address:
  // it still carries the offset into the region
  using T_PointerType = void*;
  static_assert(sizeof(SIM_PTR_T) == sizeof(void*));
  static inline T_PointerType mkrep(uintptr_t v) { return reinterpret_cast<T_PointerType>(v); }
  static inline uintptr_t repval(T_PointerType p) { return reinterpret_cast<uintptr_t>(p); }
#else
  using T_PointerType = SIM_PTR_T;
  static inline T_PointerType mkrep(uintptr_t v) { return static_cast<T_PointerType>(v); }
  static inline uintptr_t repval(T_PointerType p) { return static_cast<uintptr_t>(p); }
#endif
  using T_ShortType = int16_t;
#ifndef SIM_NO_GRANT_DENY
  using can_grant_deny_access = void;
#endif
  using needs_internal_lookup_symbol = void;

  using Config = sim::SimConfig;
  static inline Config cfg;

  struct Entry
  {
    void* host = nullptr;
    int kind = 0; // 0 vacant slot, 1 guest function, 2 callback
    void* key = nullptr;
    const void* sig = nullptr;
  };
  struct Frame
  {
    rlbox_sim_sandbox* inst;
    void* key;
  };
  static inline thread_local std::vector<Frame> stack;

  // ---- inspection interface for the simulator (not used by RLBox) ----
  sim::Region mem;
  int lib = -1;
  int inst_id = -1;
  std::vector<Entry> table; // index 0 unused
  int first_slot = 0;
  std::map<uint32_t, uint32_t> used; // allocator: offset -> size
  uint64_t n_invokes = 0;

  uint8_t* gptr(uint32_t off) { return mem.gbase + (off & (mem.size - 1)); }
  bool live() const { return mem.base != nullptr; }
  int callbacks_in_table() const
  {
    int n = 0;
    for (auto& e : table)
      if (e.kind == 2)
        n++;
    return n;
  }

  static rlbox_sim_sandbox* current()
  {
    return stack.empty() ? nullptr : stack.back().inst;
  }

  // Guest code calls table entry `idx` with guest-ABI arguments.
  template<typename Ret, typename... A>
  static Ret guest_call(uint32_t idx, A... args)
  {
    rlbox_sim_sandbox* self = current();
    if (!self)
      throw sim::GuestTrap{ "guest_call outside guest" };
    if (idx == 0 || idx >= self->table.size())
      throw sim::GuestTrap{ "call_indirect: index out of table" };
    Entry e = self->table[idx];
    if (e.kind != 2 || e.host == nullptr)
      throw sim::GuestTrap{ "call_indirect: vacant entry" };
    if (e.sig != &sim::sigtag<Ret(A...)>::c)
      throw sim::GuestTrap{ "call_indirect: signature mismatch" };
    sim::bev("guest[%d] calls entry %u", self->inst_id, idx);
    SIM_YIELD("guest_call");
    stack.push_back(Frame{ self, e.key });
    struct Pop
    {
      ~Pop() { stack.pop_back(); }
    } pop;
    using Fn = Ret (*)(A...);
    return reinterpret_cast<Fn>(e.host)(args...);
  }

protected:
  // the core must never ask for an instance to be created while that instance is being created or exists, nor for one
  // to be destroyed that does not exist: the plug-in notes it (worlds report it)
  bool lc_creating = false, lc_live = false;
  static inline std::atomic<int> lifecycle_misuse{ 0 };
  inline bool impl_create_sandbox(int lib_id = 0)
  {
    if (lc_creating || lc_live)
      lifecycle_misuse.fetch_add(1);
    lc_creating = true;
    struct Done
    {
      rlbox_sim_sandbox* s;
      bool ok = false;
      ~Done()
      {
        s->lc_creating = false;
        if (ok)
          s->lc_live = true;
      }
    } done{ this };
    bool r = impl_create_sandbox_inner(lib_id);
    done.ok = r;
    return r;
  }
  inline bool impl_create_sandbox_inner(int lib_id)
  {
    SIM_YIELD("impl_create");
    if (sim::g_fault.create_fail == 1) {
      sim::g_fault.create_fail = 0;
      if (sim::g_ctx)
        sim::g_ctx->fired("F6_create_fail");
      sim::bev("backend create -> FAIL");
      return false;
    }
    if (sim::g_fault.create_fail == 2) {
      // fails after it had reserved (and then gave back) its memory; like a real plug-in it does not
      // bother to reset what it remembers about that memory
      sim::g_fault.create_fail = 0;
      sim::Region tmp = sim::region_obtain(cfg.size, cfg.mmu, cfg.guard_after, cfg.reuse, cfg.subpage_slot);
      rem_base = (uintptr_t)tmp.base;
      rem_size = tmp.size;
      sim::region_retire(tmp, cfg.reuse);
      if (sim::g_ctx)
        sim::g_ctx->fired("F6_create_fail_after_reserving_memory");
      sim::bev("backend create -> FAIL after reserving memory");
      return false;
    }
    mem = sim::region_obtain(cfg.size, cfg.mmu, cfg.guard_after, cfg.reuse, cfg.subpage_slot);
    rem_base = (uintptr_t)mem.base;
    rem_size = mem.size;
    lib = lib_id;
    inst_id = sim::g_next_inst_id++;
    table.clear();
    table.push_back(Entry());
    auto& L = sim::libs();
    if (lib_id >= 0 && (size_t)lib_id < L.size())
      for (auto& s : L[(size_t)lib_id])
        table.push_back(Entry{ s.host, 1, nullptr, nullptr });
    first_slot = (int)table.size();
    for (int i = 0; i < cfg.slots; i++)
      table.push_back(Entry());
    used.clear();
    sim::g_regions.push_back(sim::LiveRegion{ this, (uintptr_t)mem.base, mem.size, inst_id });
    sim::bev("backend create inst=%d lib=%d size=%zu", inst_id, lib, mem.size);
    return true;
  }

  inline void impl_destroy_sandbox()
  {
    if (!lc_live || lc_creating)
      lifecycle_misuse.fetch_add(1);
    lc_live = false;
    SIM_YIELD("impl_destroy");
    sim::bev("backend destroy inst=%d", inst_id);
    for (size_t i = 0; i < sim::g_regions.size(); i++)
      if (sim::g_regions[i].inst == this) {
        sim::g_regions.erase(sim::g_regions.begin() + (long)i);
        break;
      }
    // keep the address range reserved for the rest of the run
    if (mem.mmu)
      mprotect(mem.base, mem.size, PROT_READ | PROT_WRITE);
    std::memset(mem.gbase, sim::CANARY, mem.size);
    SIM_YIELD("impl_destroy_memory_released");
    sim::region_retire(mem, cfg.reuse);
    table.clear();
    used.clear();
    lib = -1;
  }

  inline void impl_reset_sandbox() {}

  // Null is RLBox's business (0 <-> nullptr before the plug-in is asked): what this plug-in answers for a null
  // function pointer / index 0 is deliberately useless, so that a path that forgets the null case is visible.
  static constexpr uintptr_t NULL_FN_POISON = 0x7ff1;
  static inline void asked_for_null_fn()
  {
    if (sim::g_ctx)
      sim::g_ctx->probe("backend_asked_to_translate_null_function_pointer");
    // a plug-in that validates what it is asked to translate: there is no function 0
    detail::dynamic_check(false, "sim backend: asked to translate a null function pointer / function index 0");
  }
  template<typename T>
  inline void* impl_get_unsandboxed_pointer(T_PointerType p) const
  {
    if constexpr (std::is_function_v<std::remove_pointer_t<T>>) {
      if (repval(p) == 0) {
        asked_for_null_fn();
        return reinterpret_cast<void*>(NULL_FN_POISON);
      }
      return reinterpret_cast<void*>(repval(p));
    } else {
      if (wild_rep_once != 0 && repval(p) == wild_rep_once) {
        wild_rep_once = 0;
        return mem.base + repval(p);
      }
      return mem.base + (repval(p) & (mem.size - 1));
    }
  }

  template<typename T>
  inline T_PointerType impl_get_sandboxed_pointer(const void* p) const
  {
    if constexpr (std::is_function_v<std::remove_pointer_t<T>>) {
      if (p == nullptr) {
        asked_for_null_fn();
        return mkrep(NULL_FN_POISON);
      }
      sim::g_fn_translations++;
      return mkrep(reinterpret_cast<uintptr_t>(p));
    } else {
      return mkrep(reinterpret_cast<uintptr_t>(p) - reinterpret_cast<uintptr_t>(mem.base));
    }
  }

  using Finder = rlbox_sim_sandbox* (*)(const void*);

  // the core's registry lookup, as handed to the hooks above; kept so that a world can ask, at quiescence, whether an
  // object that was destroyed is still listed
  static inline std::atomic<Finder> captured_finder{ nullptr }; // (atomic: harness state shared by the caller threads)
  static inline uintptr_t base_from_example(const void* example, Finder finder)
  {
    captured_finder.store(finder, std::memory_order_relaxed);
    if (cfg.registry) {
      in_finder = true;
      rlbox_sim_sandbox* s = nullptr;
      try {
        s = finder(example);
      } catch (...) {
        in_finder = false;
        throw;
      }
      in_finder = false;
      n_registry++;
      last_registry_inst = s ? s->inst_id : -1;
      if (s) {
        sim::bev("registry lookup -> inst=%d%s", s->inst_id, s->live() ? "" : " (NOT LIVE)");
        if (!s->live())
          return s->rem_base;
        return reinterpret_cast<uintptr_t>(s->mem.base);
      }
      sim::bev("registry lookup -> none");
      if (sim::g_ctx)
        sim::g_ctx->probe("registry_lookup_none");
      // a real plug-in dereferences what the finder returned: model the crash as a trap
      throw sim::GuestTrap{ "backend: no live sandbox owns the example address" };
    }
    return reinterpret_cast<uintptr_t>(example) & ~static_cast<uintptr_t>(cfg.size - 1);
  }

  template<typename T>
  static inline void* impl_get_unsandboxed_pointer_no_ctx(T_PointerType p,
                                                          const void* example,
                                                          Finder finder)
  {
    if constexpr (std::is_function_v<std::remove_pointer_t<T>>) {
      if (repval(p) == 0) {
        asked_for_null_fn();
        return reinterpret_cast<void*>(NULL_FN_POISON);
      }
      return reinterpret_cast<void*>(repval(p));
    } else {
      return reinterpret_cast<void*>(base_from_example(example, finder) + (repval(p) & (cfg.size - 1)));
    }
  }

  template<typename T>
  static inline T_PointerType impl_get_sandboxed_pointer_no_ctx(const void* p,
                                                                const void* example,
                                                                Finder finder)
  {
    if constexpr (std::is_function_v<std::remove_pointer_t<T>>) {
      if (p == nullptr) {
        asked_for_null_fn();
        return mkrep(NULL_FN_POISON);
      }
      return mkrep(reinterpret_cast<uintptr_t>(p));
    } else {
      return mkrep(reinterpret_cast<uintptr_t>(p) - base_from_example(example, finder));
    }
  }

  inline T_PointerType impl_malloc_in_sandbox(size_t size)
  {
    SIM_YIELD("impl_malloc");
    n_mallocs++;
    last_malloc_at_end = false;
    if (sim::g_fault.malloc_fail > 0) {
      sim::g_fault.malloc_fail--;
      if (sim::g_ctx)
        sim::g_ctx->fired("F3_sbx_malloc_null");
      sim::bev("backend malloc(%zu) -> 0 (injected)", size);
      return mkrep(0);
    }
    if (sim::g_fault.malloc_wild > 0) {
      // a compromised in-sandbox allocator answers with a pointer that lies wholly outside the sandbox's memory (in the
      // application's page behind it); this plug-in, like one that adds guest offsets to a base inside a larger
      // reservation, translates it without wrapping
      sim::g_fault.malloc_wild--;
      if (sim::g_ctx)
        sim::g_ctx->fired("F4_sbx_malloc_wild_pointer");
      wild_rep_once = (uint32_t)(mem.size + 64);
      sim::bev("backend malloc(%zu) -> %u (beyond the region, injected)", size, wild_rep_once);
      return mkrep(wild_rep_once);
    }
    if (sim::g_fault.malloc_at_end > 0) {
      sim::g_fault.malloc_at_end--;
      if (size > 0 && size <= mem.size - 16) {
        uint32_t off = (uint32_t)(mem.size - size);
        bool clash = false;
        for (auto& [o, s] : used)
          if ((uint64_t)o + s > off)
            clash = true;
        if (!clash) {
          used[off] = (uint32_t)size;
          last_malloc_at_end = true;
          if (sim::g_ctx)
            sim::g_ctx->fired("F4_sbx_malloc_block_ends_at_last_byte");
          sim::bev("backend malloc(%zu) -> %u (top of the region, injected)", size, off);
          return mkrep(off);
        }
      }
    }
    if (sim::g_fault.malloc_straddle > 0) {
      sim::g_fault.malloc_straddle--;
      if (sim::g_ctx)
        sim::g_ctx->fired("F4_sbx_malloc_straddle");
      uint32_t off = (uint32_t)(mem.size - 4);
      sim::bev("backend malloc(%zu) -> %u (straddling, injected)", size, off);
      return mkrep(off);
    }
    size_t need = (size + 7) & ~(size_t)7;
    if (need == 0)
      need = 8;
    uint32_t cur = 16;
    for (auto& [o, s] : used) {
      if ((uint64_t)cur + need <= o)
        break;
      cur = o + s;
    }
    if ((uint64_t)cur + need > mem.size) {
      sim::bev("backend malloc(%zu) -> 0 (full)", size);
      if (sim::g_ctx)
        sim::g_ctx->probe("sbx_heap_full");
      return mkrep(0);
    }
    used[cur] = (uint32_t)need;
    sim::bev("backend malloc(%zu) -> %u", size, cur);
    return mkrep(cur);
  }

  inline void impl_free_in_sandbox(T_PointerType p)
  {
    SIM_YIELD("impl_free");
    auto it = used.find((uint32_t)repval(p));
    sim::bev("backend free(%llu)%s", (unsigned long long)repval(p), it == used.end() ? " UNKNOWN" : "");
    last_free_rep = (uint32_t)repval(p);
    n_frees++;
    if (it != used.end())
      used.erase(it);
  }

  static inline bool impl_is_in_same_sandbox(const void* p1, const void* p2, Finder finder)
  {
    if (cfg.registry) {
      if ((p1 == nullptr || p2 == nullptr) && !cfg.null_to_finder)
        return p1 == p2;
      in_finder = true;
      bool same = false;
      try {
        same = finder(p1) == finder(p2);
      } catch (...) {
        in_finder = false;
        throw;
      }
      in_finder = false;
      return same;
    }
    auto m = ~static_cast<uintptr_t>(cfg.size - 1);
    return (reinterpret_cast<uintptr_t>(p1) & m) == (reinterpret_cast<uintptr_t>(p2) & m);
  }

  inline bool impl_is_pointer_in_sandbox_memory(const void* p)
  {
    SIM_YIELD("impl_predicate"); // the core calls this while it holds the live-sandbox list lock (shared)
    auto u = reinterpret_cast<uintptr_t>(p), b = reinterpret_cast<uintptr_t>(mem.base);
    if (mem.base == nullptr && in_finder && rem_size != 0)
      return u >= rem_base && u - rem_base < rem_size; // a registry entry for an object that is not live answers from stale fields
    return mem.base != nullptr && u >= b && u - b < mem.size;
  }
  inline bool impl_is_pointer_in_app_memory(const void* p)
  {
    // answered independently of "in MY memory": the memory of another live sandbox is not application memory either
    auto u = reinterpret_cast<uintptr_t>(p);
    for (auto& r : sim::g_regions)
      if (u >= r.base && u - r.base < r.size)
        return false;
    return true;
  }
  inline size_t impl_get_total_memory() { return cfg.total_as_mask ? mem.size - 1 : mem.size; }
  inline void* impl_get_memory_location() { return mem.base ? mem.base - cfg.location_shift : nullptr; }

  int find_sym(const char* name)
  {
    auto& L = sim::libs();
    if (lib < 0 || (size_t)lib >= L.size())
      return 0;
    auto& v = L[(size_t)lib];
    for (size_t i = 0; i < v.size(); i++)
      if (strcmp(v[i].name, name) == 0)
        return (int)i + 1;
    return 0;
  }

  void* impl_lookup_symbol(const char* func_name)
  {
    SIM_YIELD("impl_lookup");
    n_lookups++;
    int idx = find_sym(func_name);
    if (sim::g_fault.lookup_fail > 0) {
      sim::g_fault.lookup_fail--;
      if (sim::g_ctx)
        sim::g_ctx->fired("F10_lookup_fail");
      idx = 0;
    }
    sim::bev("backend lookup(%s) inst=%d lib=%d -> %d", func_name, inst_id, lib, idx);
    if (idx == 0 && cfg.lookup_null_on_missing)
      return nullptr;
    detail::dynamic_check(idx != 0, "Symbol not found");
    return table[(size_t)idx].host;
  }

  void* impl_internal_lookup_symbol(const char* func_name)
  {
    SIM_YIELD("impl_lookup");
    n_lookups++;
    int idx = find_sym(func_name);
    sim::bev("backend internal_lookup(%s) inst=%d lib=%d -> %d", func_name, inst_id, lib, idx);
    detail::dynamic_check(idx != 0, "Symbol not found");
    return reinterpret_cast<void*>(static_cast<uintptr_t>(idx));
  }

  template<typename T, typename T_Converted, typename... T_Args>
  auto impl_invoke_with_func_ptr(T_Converted* func_ptr, T_Args&&... params)
  {
    n_invokes++;
    stack.push_back(Frame{ this, nullptr });
    struct Pop
    {
      ~Pop() { stack.pop_back(); }
    } pop;
    SIM_YIELD("impl_invoke");
    if (func_ptr == nullptr)
      throw sim::GuestTrap{ "call through a null function address" };
    return (*func_ptr)(params...);
  }

  template<typename T_Ret, typename... T_Args>
  inline T_PointerType impl_register_callback(void* key, void* callback)
  {
    SIM_YIELD("impl_register");
    RLBOX_ACQUIRE_UNIQUE_GUARD(lock, table_lock); // like the bundled backends' callback_mutex
    n_regs++;
    for (size_t i = (size_t)first_slot; i < table.size(); i++) {
      if (table[i].kind == 0) {
        table[i] = Entry{ callback, 2, key, &sim::sigtag<T_Ret(T_Args...)>::c };
        sim::bev("backend register inst=%d -> entry %zu", inst_id, i);
        return mkrep(i);
      }
    }
    sim::bev("backend register inst=%d -> REFUSED (table full)", inst_id);
    if (sim::g_ctx)
      sim::g_ctx->fired("F7_slot_table_full");
    detail::dynamic_check(false, "sim backend: no free callback entry");
    return mkrep(0);
  }

  static inline std::pair<rlbox_sim_sandbox*, void*> impl_get_executed_callback_sandbox_and_key()
  {
    if (stack.empty())
      return std::make_pair((rlbox_sim_sandbox*)nullptr, (void*)nullptr);
    return std::make_pair(stack.back().inst, stack.back().key);
  }

  template<typename T_Ret, typename... T_Args>
  inline void impl_unregister_callback(void* key)
  {
    SIM_YIELD("impl_unregister");
    RLBOX_ACQUIRE_UNIQUE_GUARD(lock, table_lock);
    n_unregs++;
    if (sim::g_fault.unregister_fail > 0) {
      sim::g_fault.unregister_fail--;
      if (sim::g_ctx)
        sim::g_ctx->fired("F13_backend_refuses_unregistration");
      sim::bev("backend unregister inst=%d -> REFUSED (injected)", inst_id);
      detail::dynamic_check(false, "sim backend: entry point is in use, cannot unregister now");
    }
    for (size_t i = (size_t)first_slot; i < table.size(); i++) {
      // entries are kept per guest signature (as plug-ins with one trampoline pool per signature do): a request made
      // with another signature than the registration's does not find the entry
      if (table[i].kind == 2 && table[i].key == key && table[i].sig == &sim::sigtag<T_Ret(T_Args...)>::c) {
        table[i] = Entry();
        sim::bev("backend unregister inst=%d entry %zu", inst_id, i);
        return;
      }
    }
    sim::bev("backend unregister inst=%d key not found", inst_id);
    if (sim::g_ctx)
      sim::g_ctx->probe("backend_unregister_request_matched_nothing");
  }

  template<typename T>
  inline T* impl_grant_access(T* src, size_t num, bool& success)
  {
    SIM_YIELD("impl_grant");
    success = false;
    if (sim::g_fault.grant_refuse > 0) {
      sim::g_fault.grant_refuse--;
      if (sim::g_ctx)
        sim::g_ctx->fired("F8_grant_refused");
      sim::bev("backend grant -> refused%s", sim::g_fault.refuse_echoes_pointer ? " (caller's pointer handed back)" : "");
      return sim::g_fault.refuse_echoes_pointer ? src : nullptr;
    }
    size_t bytes = num * sizeof(T);
    if (bytes == 0 || bytes > mem.size)
      return nullptr;
    uintptr_t off = repval(impl_malloc_in_sandbox(bytes));
    if (off == 0 || (uint64_t)off + bytes > mem.size)
      return nullptr;
    std::memcpy(mem.gbase + off, (const void*)src, bytes);
    success = true;
    sim::bev("backend grant -> %u", (unsigned)off);
    return reinterpret_cast<T*>(mem.base + off);
  }

  template<typename T>
  inline T* impl_deny_access(T* src, size_t num, bool& success)
  {
    SIM_YIELD("impl_deny");
    success = false;
    if (sim::g_fault.grant_refuse > 0) {
      sim::g_fault.grant_refuse--;
      if (sim::g_ctx)
        sim::g_ctx->fired("F8_deny_refused");
      sim::bev("backend deny -> refused%s", sim::g_fault.refuse_echoes_pointer ? " (caller's pointer handed back)" : "");
      return sim::g_fault.refuse_echoes_pointer ? src : nullptr;
    }
    if (cfg.deny_in_place) {
      (void)num;
      success = true;
      sim::bev("backend deny -> in place");
      return src;
    }
    (void)src;
    (void)num;
    sim::bev("backend deny -> unsupported");
    return nullptr;
  }

public:
  static inline int lifecycle_misuse_count() { return lifecycle_misuse.load(); }
  // (a run must not inherit the finder that an earlier run of the same process captured)
  static inline void forget_finder() { captured_finder.store(nullptr, std::memory_order_relaxed); }
  static inline bool destroyed_object_still_listed(rlbox_sim_sandbox* obj)
  {
    Finder finder = captured_finder.load(std::memory_order_relaxed);
    if (!finder || obj->rem_size == 0)
      return false;
    in_finder = true;
    rlbox_sim_sandbox* s = nullptr;
    try {
      s = finder(reinterpret_cast<const void*>(obj->rem_base + 8));
    } catch (...) {
    }
    in_finder = false;
    return s == obj;
  }

  RLBOX_SHARED_LOCK(table_lock);
  bool last_malloc_at_end = false;
  uintptr_t rem_base = 0; // what the object remembers about its memory (not reset by destroy / failed create)
  size_t rem_size = 0;
  static inline thread_local bool in_finder = false;
  uint32_t last_free_rep = 0;
  mutable uint32_t wild_rep_once = 0;
  uint64_t n_frees = 0;
  uint64_t n_lookups = 0;
  uint64_t n_mallocs = 0;
  uint64_t n_regs = 0;
  uint64_t n_unregs = 0;
  static inline thread_local int last_registry_inst = -2; // -2 not consulted, -1 none
  static inline thread_local uint64_t n_registry = 0;
};

} // namespace rlbox
