/* Guest library for the bundled host-ABI backends (noop: linked statically
 * into the world; dylib: built twice as libguest0.so / libguest1.so with
 * different -DLIB_ID and loaded RTLD_LOCAL).  Plain C: this is "sandboxed
 * code" calling back into the application through the entry points it is
 * given. */
#ifndef LIB_ID
#  define LIB_ID 0
#endif
#ifndef GUEST_PREFIX
#  define GUEST_PREFIX(n) n
#endif

long GUEST_PREFIX(g_multi)(long (*cb)(long, unsigned), long a, unsigned b, int times)
{
  unsigned long acc = 0;
  int i;
  for (i = 0; i < times; i++) {
    long r = cb(a + i, b);
    acc = acc * 31u + (unsigned long)r;
  }
  return (long)(acc & 0x7fffffffUL);
}

void GUEST_PREFIX(g_callv)(void (*cb)(void))
{
  cb();
}

int GUEST_PREFIX(g_lib_id)(void)
{
  return LIB_ID;
}

long GUEST_PREFIX(g_add3)(long a, int b, unsigned short c)
{
  return a + b + c + 1000 * LIB_ID;
}

int GUEST_PREFIX(g_call_b)(int (*cb)(short, double, char*, unsigned long), short s, double d, char* p, unsigned long ul)
{
  return cb(s, d, p, ul) + 1;
}

/* State and calls that the library reaches through its own dynamic symbols (GOT / PLT when built -fPIC): they stay
 * inside this copy of the library only as long as the loader keeps the copies apart. */
int g_guest_counter;
int GUEST_PREFIX(g_bump)(void)
{
  return ++g_guest_counter;
}
void GUEST_PREFIX(g_reset)(void)
{
  g_guest_counter = 0;
}
int GUEST_PREFIX(g_lib_id_indirect)(void)
{
  return GUEST_PREFIX(g_lib_id)();
}

/* callbacks whose result travels in other registers / through other trampolines than long */
double GUEST_PREFIX(g_call_d)(double (*cb)(double, float), double a, float b)
{
  return cb(a, b) + 0.5;
}
long long GUEST_PREFIX(g_call_ll)(long long (*cb)(long long, unsigned char), long long a, unsigned char b)
{
  return cb(a, b) - 1;
}
float GUEST_PREFIX(g_call_f)(float (*cb)(float), float a)
{
  return cb(a);
}
unsigned long GUEST_PREFIX(g_call_ul)(unsigned long (*cb)(unsigned long, short), unsigned long a, short b)
{
  return cb(a, b) ^ 1UL;
}
