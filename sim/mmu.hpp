// Trap-MMU: every access the application (RLBox) makes to the armed region
// faults; the SIGSEGV handler records it, gives the guest actor a turn
// (the hook writes through the always-writable guest view), unprotects,
// single-steps the faulting instruction with the x86 trap flag, and the
// SIGTRAP handler re-protects.  x86-64 / Linux only.
#pragma once
#include <csignal>
#include <cstdint>
#include <cstring>
#include <sys/mman.h>
#include <ucontext.h>
#include <unistd.h>

namespace sim::mmu {

struct Access
{
  uint32_t off;
  bool write;
};
constexpr size_t MAXLOG = 8192;

struct State
{
  uint8_t* base = nullptr;
  size_t len = 0;
  bool armed = false;
  bool stepping = false;
  uint64_t count = 0;
  void (*hook)(uint64_t k, uint32_t off, bool write, void* ud) = nullptr;
  void* ud = nullptr;
  Access log[MAXLOG];
  size_t nlog = 0;
  void (*fallback)(int) = nullptr;
  uint64_t total_traps = 0;
};
inline State g;

inline void on_segv(int sig, siginfo_t* si, void* ucv)
{
  auto* uc = (ucontext_t*)ucv;
  auto addr = (uintptr_t)si->si_addr;
  if (!g.armed || addr < (uintptr_t)g.base || addr >= (uintptr_t)g.base + g.len) {
    if (g.fallback)
      g.fallback(sig);
    _exit(71);
  }
  bool write = (uc->uc_mcontext.gregs[REG_ERR] & 2) != 0;
  uint32_t off = (uint32_t)(addr - (uintptr_t)g.base);
  uint64_t k = ++g.count;
  g.total_traps++;
  if (g.nlog < MAXLOG)
    g.log[g.nlog++] = Access{ off, write };
  if (g.hook)
    g.hook(k, off, write, g.ud);
  mprotect(g.base, g.len, PROT_READ | PROT_WRITE);
  uc->uc_mcontext.gregs[REG_EFL] |= 0x100; // TF
  g.stepping = true;
}

inline void on_trap(int, siginfo_t*, void* ucv)
{
  auto* uc = (ucontext_t*)ucv;
  if (g.stepping) {
    if (g.armed)
      mprotect(g.base, g.len, PROT_NONE);
    g.stepping = false;
  }
  uc->uc_mcontext.gregs[REG_EFL] &= ~0x100LL;
}

inline void install(void (*fallback)(int))
{
  static char altstack[1 << 16];
  stack_t ss;
  ss.ss_sp = altstack;
  ss.ss_size = sizeof altstack;
  ss.ss_flags = 0;
  sigaltstack(&ss, nullptr);
  g.fallback = fallback;
  struct sigaction sa;
  memset(&sa, 0, sizeof sa);
  sa.sa_sigaction = on_segv;
  sa.sa_flags = SA_SIGINFO | SA_ONSTACK | SA_NODEFER;
  sigaction(SIGSEGV, &sa, nullptr);
  struct sigaction st;
  memset(&st, 0, sizeof st);
  st.sa_sigaction = on_trap;
  st.sa_flags = SA_SIGINFO | SA_ONSTACK;
  sigaction(SIGTRAP, &st, nullptr);
}

inline void arm(uint8_t* base, size_t len, void (*hook)(uint64_t, uint32_t, bool, void*), void* ud)
{
  g.base = base;
  g.len = len;
  g.hook = hook;
  g.ud = ud;
  g.count = 0;
  g.nlog = 0;
  g.stepping = false;
  g.armed = true;
  mprotect(base, len, PROT_NONE);
}

inline void disarm()
{
  if (g.armed) {
    g.armed = false;
    mprotect(g.base, g.len, PROT_READ | PROT_WRITE);
  }
  g.hook = nullptr;
}

} // namespace sim::mmu
