// Host allocation failure as an injectable fault ("failing allocations"): worlds that replace the global
// allocation functions (sim/aligned_new.hpp) make the n-th allocation after arming fail - operator new throws
// std::bad_alloc, the nothrow forms and malloc return null.  Allocations of the harness itself (event log,
// counters, snapshots taken at trap time) are exempt, so that traced and untraced executions of one plan fail
// the same allocation of the code under test.
#pragma once
namespace sim {
inline thread_local int g_host_alloc_fail_countdown = 0; // > 0: armed
inline thread_local int g_host_alloc_pause = 0;
inline thread_local unsigned long g_host_alloc_failed = 0;
inline thread_local unsigned long g_host_alloc_seen = 0; // allocations counted while armed
struct AllocPause
{
  AllocPause() { g_host_alloc_pause++; }
  ~AllocPause() { g_host_alloc_pause--; }
};
inline bool host_alloc_should_fail()
{
  if (g_host_alloc_pause || g_host_alloc_fail_countdown <= 0)
    return false;
  g_host_alloc_seen++;
  if (--g_host_alloc_fail_countdown == 0) {
    g_host_alloc_failed++;
    return true;
  }
  return false;
}
} // namespace sim
